#!/bin/bash
# usage: ./seed_confirm.sh <src_dir with patch.diff demo.py notes.md> <seed_name> <property> "<needs>"
# Confirms in a scratch worktree: patch applies to /repo HEAD, existing tests pass, demo fails with / passes without.
src=$1; name=$2; prop=$3; needs=$4
wt=/tmp/confirm_wt_$name
dst=/verif/seeded/$name
git -C /repo worktree remove --force $wt 2>/dev/null
git -C /repo worktree add --detach $wt HEAD >/dev/null 2>&1 || { echo "worktree failed"; exit 2; }
if ! git -C $wt apply $src/patch.diff; then echo "$name: PATCH DOES NOT APPLY"; git -C /repo worktree remove --force $wt; exit 4; fi
cd $wt
PYTHONPATH=$wt timeout 600 /venv/bin/python $src/demo.py >/tmp/confirm_$name.with 2>&1; rc_with=$?
PYTHONPATH=/repo timeout 600 /venv/bin/python $src/demo.py >/tmp/confirm_$name.without 2>&1; rc_without=$?
tests=$(/venv/bin/python -m pytest -q -p no:cacheprovider -n ${NP:-8} --timeout=900 pyglove 2>&1 | tail -6)
failed=$(echo "$tests" | grep "^FAILED" | grep -v "file_system_test.py" | grep -v "text_color_test")
summary=$(echo "$tests" | tail -1)
cd /verif
git -C /repo worktree remove --force $wt
mkdir -p $dst
cp $src/patch.diff $src/demo.py $dst/
[ -f $src/notes.md ] && cp $src/notes.md $dst/
python3 - "$dst" "$name" "$prop" "$needs" "$rc_with" "$rc_without" "$summary" "$failed" "$(git -C /repo rev-parse --short HEAD)" <<'PY'
import json, sys
dst, name, prop, needs, rc_with, rc_without, summary, failed, head = sys.argv[1:]
meta = dict(seed=name, breaks_property=prop, needs_to_manifest=needs, repo_head_when_confirmed=head,
            confirmed=dict(demo_exit_with_patch=int(rc_with), demo_exit_without_patch=int(rc_without),
                           test_suite_with_patch=summary, unexpected_test_failures=failed,
                           commands=['git worktree add --detach /tmp/confirm_wt_<seed> HEAD; git apply patch.diff',
                                     'PYTHONPATH=<worktree> /venv/bin/python demo.py',
                                     'PYTHONPATH=/repo /venv/bin/python demo.py',
                                     'cd <worktree> && /venv/bin/python -m pytest -q -p no:cacheprovider -n 8 --timeout=900 pyglove']),
            detected_by=[], source='independent sub-agent given only the property text')
json.dump(meta, open(dst + '/meta.json', 'w'), indent=1)
ok = int(rc_with) != 0 and int(rc_without) == 0 and not failed.strip()
print(f'{name}: demo with={rc_with} without={rc_without} tests="{summary}" unexpected="{failed.strip()}" -> {"CONFIRMED" if ok else "NOT CONFIRMED"}')
PY
