#!/bin/bash
# usage: ./seedrun.sh <seed_name> <PID> [PID...]   applies seeded/<name>/patch.diff to /repo, runs the checks
# (TIER=quick|thorough), records the outcome in seeded/<name>/meta.json, reverts /repo.
name=$1; shift
patch=/verif/seeded/$name/patch.diff
if ! git -C /repo diff --quiet; then echo "REPO DIRTY"; exit 3; fi
if ! git -C /repo apply "$patch"; then echo "PATCH DOES NOT APPLY: $patch"; exit 4; fi
for pid in "$@"; do
  out=$(cd /verif && ./check $pid --tier ${TIER:-quick} 2>&1)
  rc=$?
  nv=$(echo "$out" | grep -c '^VIOLATION')
  sig=$(echo "$out" | grep "signature=" | head -1 | sed 's/^ *//' | cut -c1-200)
  echo "== $name $pid tier=${TIER:-quick} rc=$rc violations=$nv  $sig"
  echo "$out" | grep "HARNESS" | head -3
  python3 - "$name" "$pid" "${TIER:-quick}" "$rc" "$nv" "$sig" <<'PY'
import json, sys
name, pid, tier, rc, nv, sig = sys.argv[1:]
p = f'/verif/seeded/{name}/meta.json'
m = json.load(open(p))
m['detected_by'] = [d for d in m.get('detected_by', []) if not (d['check'] == pid and d['tier'] == tier)]
m['detected_by'].append(dict(check=pid, tier=tier, exit_code=int(rc), violations=int(nv), first_signature=sig))
json.dump(m, open(p, 'w'), indent=1)
PY
done
git -C /repo checkout -- .
# evidence files were rewritten by runs on a mutated tree: restore them from git
git -C /verif checkout -- evidence 2>/dev/null
