"""Shared harness for symbolic trees: addressing, walking, invariants, op menu.

Only the public surface of pyglove is used: sym_items / sym_getattr /
sym_parent / sym_path / sym_root / sym_get and the container APIs.
"""
from __future__ import annotations

import copy
import itertools

import pyglove as pg

from mc import fixtures

MISSING = pg.MISSING_VALUE
Symbolic = pg.Symbolic


# ---------------------------------------------------------------------------
# Walking and addressing
# ---------------------------------------------------------------------------
def is_container(v):
  # pg.Ref is an explicit reference: its target belongs to another tree.
  # Hyper primitives (pg.oneof etc.) are values here, not trees to mutate.
  return (isinstance(v, (pg.Dict, pg.List, pg.Object))
          and not isinstance(v, (pg.Ref, pg.hyper.HyperValue)))


def children(node):
  """(key, value) pairs of a symbolic container via the public iterator."""
  return list(node.sym_items())


def walk(root, max_depth=10):
  """Yields (keys, node, parent, key) for every symbolic container under root (pre-order)."""
  out = []

  def rec(node, keys, parent, key, depth):
    out.append((keys, node, parent, key))
    if depth >= max_depth:
      return
    for k, v in children(node):
      if is_container(v):
        rec(v, keys + (k,), node, k, depth + 1)

  rec(root, (), None, None, 0)
  return out


def resolve(root, keys):
  node = root
  for k in keys:
    node = node.sym_getattr(k)
  return node


def struct(v, depth=0):
  """Canonical structure of a value (types, key order, leaves)."""
  if depth > 10:
    return '<deep>'
  if isinstance(v, pg.Ref):
    return ('Ref', struct(v.value, depth + 1))
  if isinstance(v, pg.Object):
    return (type(v).__name__,) + tuple((k, struct(e, depth + 1)) for k, e in v.sym_items())
  if isinstance(v, pg.Dict):
    tag = 'D' if v.value_spec is None else 'Dt'
    return (tag,) + tuple((k, struct(e, depth + 1)) for k, e in v.sym_items())
  if isinstance(v, pg.List):
    tag = 'L' if v.value_spec is None else 'Lt'
    return (tag,) + tuple(struct(e, depth + 1) for e in v.sym_values())
  if isinstance(v, dict):
    return ('pd',) + tuple((k, struct(e, depth + 1)) for k, e in v.items())
  if isinstance(v, (list, tuple)):
    return ('pl',) + tuple(struct(e, depth + 1) for e in v)
  return repr(v)


# ---------------------------------------------------------------------------
# The C01 invariant
# ---------------------------------------------------------------------------
def check_topology(roots, detached=()):
  """Returns a list of (clause, text); empty when the forest is well formed."""
  bad = []
  seen = {}
  live = [r for r in roots if r is not None]
  for ri, r in enumerate(roots):
    if r is None:
      continue
    try:
      if r.sym_parent is not None:
        bad.append(('root-has-parent', f'root{ri}.sym_parent is {type(r.sym_parent).__name__}'))
      if tuple(r.sym_path.keys) != ():
        bad.append(('root-path', f'root{ri}.sym_path = {r.sym_path!r}'))
      for keys, node, parent, key in walk(r):
        if id(node) in seen:
          bad.append(('alias', f'same node object at root{seen[id(node)][0]}:{seen[id(node)][1]} and root{ri}:{keys}'))
          continue
        seen[id(node)] = (ri, keys)
        if parent is None:
          continue
        if node.sym_parent is not parent:
          p = node.sym_parent
          bad.append(('parent', f'node at root{ri}:{keys} has sym_parent '
                      f'{"None" if p is None else type(p).__name__ + "@" + repr(getattr(p, "sym_path", None))} '
                      f'but is stored in {type(parent).__name__}@{keys[:-1]}'))
        if tuple(node.sym_path.keys) != keys:
          bad.append(('path', f'node at root{ri}:{keys} reports sym_path {node.sym_path!r}'))
        else:
          try:
            got = r.sym_get(node.sym_path)
          except Exception as e:  # pylint: disable=broad-except
            got = e
          if got is not node:
            bad.append(('lookup', f'root{ri}.sym_get({node.sym_path!r}) is not the node at {keys}: {type(got).__name__}'))
        if node.sym_root is not r:
          bad.append(('root', f'node at root{ri}:{keys} reports a different sym_root'))
    except RecursionError:
      bad.append(('cycle', f'root{ri} walk does not terminate'))
  for di, d in enumerate(detached):
    if id(d) in seen:
      continue
    try:
      rt = d.sym_root
    except Exception as e:  # pylint: disable=broad-except
      bad.append(('detached-root-raises', f'{type(e).__name__}'))
      continue
    if any(rt is r for r in live) or any(d.sym_parent is n for n in _nodes(live, seen)):
      bad.append(('detached-still-child', f'removed/replaced {type(d).__name__} still reports a live tree as '
                  f'its parent/root (sym_path={d.sym_path!r})'))
    elif d.sym_parent is None:
      # what was removed is the root of a tree of its own: the paths in it start at that root
      for clause, text in check_topology([d]):
        bad.append((f'detached-{clause}', f'removed/replaced {type(d).__name__}: {text}'))
  return bad


def _nodes(live, seen):
  out = []
  for r in live:
    for _, node, _, _ in walk(r):
      out.append(node)
  return out


def all_nodes(roots):
  out = {}
  for r in roots:
    if r is None:
      continue
    for _, node, _, _ in walk(r):
      out[id(node)] = node
  return out


def annotation(root):
  """(keys, type name) list — used for differential comparison with a fresh copy."""
  return [(keys, type(node).__name__) for keys, node, _, _ in walk(root)]


# ---------------------------------------------------------------------------
# Worlds
# ---------------------------------------------------------------------------
def make_root(name):
  N = fixtures.Node
  if name == 'dict':
    return pg.Dict(a=pg.Dict(x=0), b=pg.List([pg.Dict(y=1)]))
  if name == 'list':
    return pg.List([pg.Dict(x=0), pg.List([1]), 2])
  if name == 'listofdict':
    return pg.List([pg.Dict(k=0), pg.Dict(k=1)])
  if name == 'obj':
    return N(x=N(x=1), items=[{'k': 0}], d={'m': [0]})
  if name == 'tdict':
    return pg.Dict(
        value_spec=pg.typing.Dict([
            ('a', pg.typing.Dict([('x', pg.typing.Int(default=0))])),
            ('l', pg.typing.List(pg.typing.Dict(), default=[])),
            (pg.typing.StrKey('k.*'), pg.typing.Any()),
        ]),
        l=[{'z': 1}])
  if name == 'tlist':
    return pg.List([{'x': 1}, {'x': 2}],
                   value_spec=pg.typing.List(pg.typing.Dict([('x', pg.typing.Int())])))
  if name == 'dotted':
    return pg.List([pg.Dict({'a.b': pg.Dict(x=0), '0': pg.List([pg.Dict({'[1]': 1})])}), 1])
  if name == 'emptykey':
    # the empty string is a legal key: its path renders like the root's but is one level deeper
    return pg.Dict({'': pg.Dict(x=0), 'a': pg.List([pg.Dict({'': 1})])})
  if name == 'smalld':
    return pg.Dict(p=pg.List([0]))
  if name == 'typedobj':
    return fixtures.Typed(n=1, s='a', child=N(x=pg.Dict(q=0)))
  if name == 'rolist':
    return pg.Dict(r=pg.List([pg.Dict(x=0), 1], accessor_writable=False),
                   d=pg.Dict(y=pg.List([0]), accessor_writable=False))
  if name == 'dict_sealed':
    return pg.Dict(a=pg.Dict(x=0), b=pg.List([1]), sealed=True)
  if name == 'list_sealed':
    return pg.List([pg.Dict(x=0), 1], sealed=True)
  if name == 'obj_sealed':
    return N(x=N(x=1), items=[{'k': 0}], sealed=True)
  if name == 'list_ro':
    return pg.List([pg.Dict(x=0), pg.List([1], accessor_writable=False)], accessor_writable=False)
  if name == 'dict_ro':
    return pg.Dict(a=pg.Dict(x=0, accessor_writable=False), accessor_writable=False)
  if name == 'dict_partial':
    return pg.Dict(
        value_spec=pg.typing.Dict([('a', pg.typing.Int()), ('b', pg.typing.Dict([('c', pg.typing.Str())]))]),
        allow_partial=True, b={})
  if name == 'list_partial':
    return pg.List([{}], value_spec=pg.typing.List(pg.typing.Dict([('c', pg.typing.Str())])), allow_partial=True)
  if name == 'obj_partial':
    return fixtures.Req.partial(child=fixtures.Req.partial(a=1))
  if name == 'withref':
    target = pg.Dict(t=0)
    return pg.Dict(own=pg.Dict(x=0), r=pg.Ref(target), l=pg.List([pg.Ref(target)]))
  if name == 'withleaf':
    return pg.Dict(l=fixtures.Leaf(1), n=pg.List([fixtures.Leaf(2), pg.Dict(z=fixtures.Leaf(3))]))
  if name == 'withtuple':
    return pg.Dict(t=(('adam', pg.Dict(lr=0)), ('sgd', pg.Dict(lr=1))), u=(pg.List([1]), 2),
                   l=pg.List([((pg.Dict(z=0),),)]),
                   # below a tuple: a symbolic container that itself holds containers and a mutable plain leaf
                   v=(pg.Dict(inner=pg.List([pg.Dict(k=0)]), leaf=fixtures.Leaf(1)), [pg.Dict(w=fixtures.Leaf(2))]))
  if name == 'unsealed_default_sealed':
    inner = fixtures.SealedByDefault(x=pg.Dict(q=0), items=[pg.Dict(r=1)]).seal(False)
    return pg.Dict(a=inner, b=fixtures.SealedByDefault(x=1))
  if name == 'unsealed_root':
    return fixtures.SealedByDefault(x=pg.Dict(q=0), items=[1]).seal(False)
  if name == 'sealed_by_default':
    return fixtures.SealedByDefault(x=pg.Dict(q=pg.List([0])), items=[pg.Dict(r=1), 2])
  if name == 'typed_ro':
    # schema-bound containers whose accessors are switched off
    return pg.Dict(
        t=pg.Dict(value_spec=pg.typing.Dict([('a', pg.typing.Int(default=0)), (pg.typing.StrKey('k.*'), pg.typing.Any())]),
                  accessor_writable=False, a=1, k1=pg.Dict(z=0)),
        l=pg.List([1, 2], value_spec=pg.typing.List(pg.typing.Int()), accessor_writable=False))
  if name == 'instance_acc':
    # the accessor-writable flag changed per instance, in both directions, at the root and below it
    on = fixtures.NoAssign(x=pg.Dict(q=0), items=[fixtures.NoAssign(x=1).set_accessor_writable(True)]).set_accessor_writable(True)
    off = N(x=N(x=1).set_accessor_writable(False), items=[{'k': 0}]).set_accessor_writable(False)
    return pg.Dict(on=on, off=off)
  if name == 'instance_acc_root':
    return fixtures.NoAssign(x=pg.Dict(q=0), items=[1]).set_accessor_writable(True)
  if name == 'clone_of_sealed':
    return N(x=N(x=pg.Dict(a=1)), items=[{'k': 0}], sealed=True).clone(deep=True)
  if name == 'none':
    return None
  raise ValueError(name)


ROOT_NAMES = ('dict', 'list', 'listofdict', 'obj', 'tdict', 'tlist', 'dotted', 'emptykey')


def build_world(init):
  """init = tuple of root names."""
  return dict(roots=[make_root(n) for n in init], detached=[])


def mkval(world, tok):
  """Decodes a value token into a (fresh or existing) value; fresh symbolic values are remembered in world['offered']."""
  v = _mkval(world, tok)
  if isinstance(v, pg.Insertion):
    inner = v.value
  else:
    inner = v
  if isinstance(inner, pg.Symbolic) and not (isinstance(tok, tuple) and tok[0] in ('node', 'det')):
    world.setdefault('offered', []).append(inner)
  return v


def _mkval(world, tok):
  if isinstance(tok, tuple):
    if tok[0] == 'node':
      return resolve(world['roots'][tok[1]], tok[2])
    if tok[0] == 'det':
      d = world['detached']
      return d[tok[1]] if tok[1] < len(d) else pg.Dict(det=0)
    if tok[0] == 'ins':
      return pg.Insertion(_mkval(world, tok[1]))
    raise ValueError(tok)
  if tok == 'pd':
    return {'x': 0}
  if tok == 'pl':
    return [0]
  if tok == 'pnest':
    return {'u': [{'v': 0}]}
  if tok == 'sd':
    return pg.Dict(x=0)
  if tok == 'sl':
    return pg.List([0])
  if tok == 'obj':
    return fixtures.Node(x=0)
  if tok in ('objdup', 'sddup', 'sldup'):
    # a fresh container built from ONE symbolic value used at several places (directly and inside plain containers)
    shared = pg.Dict(s=0)
    if tok == 'objdup':
      import collections
      class _L(list):
        pass
      return fixtures.Node(x=shared, items=_L([shared, collections.OrderedDict(k=shared)]), d=collections.OrderedDict(k=shared))
    if tok == 'sddup':
      return pg.Dict(a=shared, b=[shared], c={'k': shared})
    return pg.List([shared, shared, {'k': shared}])
  if tok == 'MISSING':
    return MISSING
  return tok


# ---------------------------------------------------------------------------
# Operation menu.  op = (mode, kind, root_index, keys, *args)
# ---------------------------------------------------------------------------
MODES = ('', 'nonotify')


def node_tokens(world, limit=3):
  """Tokens addressing existing container nodes (first `limit` non-root nodes per root)."""
  toks = []
  for ri, r in enumerate(world['roots']):
    if r is None:
      continue
    n = 0
    for keys, _, parent, _ in walk(r):
      if parent is None:
        continue
      toks.append(('node', ri, keys))
      n += 1
      if n >= limit:
        break
  if world['detached']:
    toks.append(('det', 0))
  return toks


def menu(world, vals, modes=MODES, max_list=4, with_copy=True, node_vals=True, rich=True):
  """All operations enabled in this world (simplest first)."""
  ops = []
  nvals = list(vals) + (node_tokens(world) if node_vals else [])
  for ri, r in enumerate(world['roots']):
    if r is None:
      continue
    for keys, node, _, _ in walk(r):
      if isinstance(node, pg.Object):
        fields = [k for k, _ in children(node)]
        for f in fields:
          for v in nvals:
            ops.append(('', 'setattr', ri, keys, f, v))
            ops.append(('', 'rebind', ri, keys, ((f, v),)))
        if rich and len(fields) >= 2:
          ops.append(('', 'rebind', ri, keys, ((fields[0], 'sd'), (fields[1], 'pl'))))
      elif isinstance(node, pg.Dict):
        ks = [k for k, _ in children(node)]
        cand = ks + ['n']
        for k in cand:
          for v in nvals:
            for mode in modes:
              ops.append((mode, 'set', ri, keys, k, v))
            ops.append(('', 'rebind', ri, keys, ((k, v),)))
            if rich:
              ops.append(('', 'update', ri, keys, ((k, v),)))
              ops.append(('', 'ior', ri, keys, ((k, v),)))
              ops.append(('', 'setdefault', ri, keys, k, v))
          if isinstance(k, str) and rich:
            ops.append(('', 'setattr', ri, keys, k, 'sd'))
        for k in ks:
          for mode in modes:
            ops.append((mode, 'del', ri, keys, k))
          for mode in modes:
            ops.append((mode, 'pop', ri, keys, k))
          ops.append(('', 'rebind', ri, keys, ((k, 'MISSING'),)))
          ops.append(('skip', 'rebind', ri, keys, ((k, 'sd'),)))
          ops.append(('noparents', 'rebind', ri, keys, ((k, 'sd'),)))
        if len(ks) >= 2 and rich:
          ops.append(('', 'rebind', ri, keys, ((ks[0], 'sd'), (ks[1], 'MISSING'))))
        for mode in modes:
          ops.append((mode, 'popitem', ri, keys))
          ops.append((mode, 'clear', ri, keys))
      elif isinstance(node, pg.List):
        n = len(node)
        for v in nvals:
          if n < max_list:
            for mode in modes:
              ops.append((mode, 'append', ri, keys, v))
            for i in sorted({0, n // 2, n, -1}):
              for mode in modes:
                ops.append((mode, 'insert', ri, keys, i, v))
            ops.append(('', 'rebind', ri, keys, ((n + 1, v),)))
            for i in sorted({0, max(0, n - 1)}):
              ops.append(('', 'rebind', ri, keys, ((i, ('ins', v)),)))
              ops.append(('nonotify', 'rebind', ri, keys, ((i, ('ins', v)),)))
          for i in range(n):
            for mode in modes:
              ops.append((mode, 'set', ri, keys, i, v))
            ops.append(('', 'rebind', ri, keys, ((i, v),)))
        if n + 2 <= max_list and rich:
          for mode in modes:
            ops.append((mode, 'extend', ri, keys, ('sd', 'pl')))
            ops.append((mode, 'iadd', ri, keys, ('sd', 'pl')))
          for mode in modes:
            ops.append((mode, 'setslice', ri, keys, (0, 1, None), ('sd', 'pd', 0)))
          ops.append(('', 'setslice', ri, keys, (n, n, None), ('sd', 'pl')))
        if rich and n * 2 <= max_list and n:
          for mode in modes:
            ops.append((mode, 'imul', ri, keys, 2))
        for i in range(n):
          for mode in modes:
            ops.append((mode, 'del', ri, keys, i))
          for mode in modes:
            ops.append((mode, 'pop', ri, keys, i))
          ops.append(('', 'rebind', ri, keys, ((i, 'MISSING'),)))
          ops.append(('nonotify', 'rebind', ri, keys, ((i, 'MISSING'),)))
        if n >= 2:
          ops.append(('', 'rebind', ri, keys, ((0, 'MISSING'), (n - 1, 'sd'))))
          ops.append(('', 'rebind', ri, keys, ((0, ('ins', 'sd')), (n - 1, 'MISSING'))))
          if rich:
            for mode in modes:
              ops.append((mode, 'setslice', ri, keys, (0, 2, None), ('sd',)))
              ops.append((mode, 'setslice', ri, keys, (None, None, -1), tuple(['sd'] * n)))
            for mode in modes:
              ops.append((mode, 'delslice', ri, keys, (0, 2, None)))
              ops.append((mode, 'delslice', ri, keys, (None, None, -2)))
          for mode in modes:
            ops.append((mode, 'reverse', ri, keys))
            ops.append((mode, 'sort', ri, keys))
            if n >= 3:
              ops.append((mode, 'sort_badkey', ri, keys))
        if n:
          for mode in modes:
            ops.append((mode, 'clear', ri, keys))
            ops.append((mode, 'remove0', ri, keys))
    if with_copy and len(world['roots']) > 1:
      other = 1 - ri if len(world['roots']) == 2 else None
      if other is not None:
        for how in ('clone_deep', 'clone_shallow', 'deepcopy', 'json'):
          ops.append(('', 'copyroot', ri, (), how, other))
  # drop exact duplicates, keep order
  seen = set()
  out = []
  for op in ops:
    if op not in seen:
      seen.add(op)
      out.append(op)
  return out


class _Mode:
  def __init__(self, mode):
    self.mode = mode
    self.cm = None

  def __enter__(self):
    if self.mode == 'nonotify':
      self.cm = pg.notify_on_change(False)
      self.cm.__enter__()
    return self

  def __exit__(self, *exc):
    if self.cm is not None:
      return self.cm.__exit__(*exc)
    return False


def apply_op(world, op):
  """Executes op on the real objects. Returns ('ok', result) or ('exc', class name, exc)."""
  mode, kind, ri, keys = op[:4]
  args = op[4:]
  try:
    root = world['roots'][ri]
    node = resolve(root, keys)
    with _Mode(mode):
      res = _do(world, node, mode, kind, ri, keys, args)
    return ('ok', res)
  except Exception as e:  # pylint: disable=broad-except
    return ('exc', type(e).__name__, e)


def _kp(k):
  return pg.KeyPath(k)


def _do(world, node, mode, kind, ri, keys, args):
  mk = lambda t: mkval(world, t)
  if kind == 'setattr':
    return setattr(node, args[0], mk(args[1]))
  if kind == 'set':
    node[args[0]] = mk(args[1])
    return None
  if kind == 'del':
    del node[args[0]]
    return None
  if kind == 'pop':
    return node.pop(args[0])
  if kind == 'popitem':
    return node.popitem()
  if kind == 'clear':
    return node.clear()
  if kind == 'update':
    return node.update({k: mk(v) for k, v in args[0]})
  if kind == 'setdefault':
    return node.setdefault(args[0], mk(args[1]))
  if kind == 'ior':
    node |= {k: mk(v) for k, v in args[0]}
    _restore(world, ri, keys, node)
    return None
  if kind == 'rebind':
    kw = {}
    if mode == 'skip':
      kw['skip_notification'] = True
    if mode == 'noparents':
      kw['notify_parents'] = False
    return node.rebind({_kp(k): mk(v) for k, v in args[0]}, raise_on_no_change=False, **kw)
  if kind == 'rebind_deep':
    return node.rebind({pg.KeyPath(list(k)): mk(v) for k, v in args[0]}, raise_on_no_change=False)
  if kind == 'delattr':
    return delattr(node, args[0])
  if kind == 'append':
    return node.append(mk(args[0]))
  if kind == 'insert':
    return node.insert(args[0], mk(args[1]))
  if kind == 'extend':
    return node.extend([mk(v) for v in args[0]])
  if kind == 'iadd':
    node += [mk(v) for v in args[0]]
    _restore(world, ri, keys, node)
    return None
  if kind == 'imul':
    node *= args[0]
    _restore(world, ri, keys, node)
    return None
  if kind == 'setslice':
    node[slice(*args[0])] = [mk(v) for v in args[1]]
    return None
  if kind == 'delslice':
    del node[slice(*args[0])]
    return None
  if kind == 'reverse':
    return node.reverse()
  if kind == 'sort':
    return node.sort(key=repr)
  if kind == 'sort_badkey':
    # a key function whose values stop being comparable half-way: the sort raises after it has moved elements
    order = {id(e): k for e, k in zip(node.sym_values(), [1, 0, None, 2, None])}
    return node.sort(key=lambda e: order.get(id(e)))
  if kind == 'remove0':
    return node.remove(node.sym_getattr(0))
  if kind == 'copyroot':
    how, other = args
    if how == 'clone_deep':
      c = node.clone(deep=True)
    elif how == 'clone_shallow':
      c = node.clone(deep=False)
    elif how == 'deepcopy':
      c = copy.deepcopy(node)
    else:
      c = pg.from_json(pg.to_json(node))
    world['roots'][other] = c
    return None
  raise AssertionError(kind)


def _restore(world, ri, keys, node):
  """An augmented assignment rebinds the *name*; if the operator returned a
  new object (allowed by the data model) the harness stores it where the old
  one was, exactly as `parent[k] op= v` would do."""
  root = world['roots'][ri]
  old = resolve(root, keys)
  if node is old:
    return
  if not keys:
    world['roots'][ri] = node
  else:
    parent = resolve(root, keys[:-1])
    if isinstance(parent, pg.Object):
      setattr(parent, keys[-1], node)
    else:
      parent[keys[-1]] = node


def op_class(op):
  """Coarse operation class used in violation signatures."""
  mode, kind = op[0], op[1]
  extra = ''
  if kind == 'rebind':
    parts = []
    for k, v in op[4]:
      parts.append('ins' if isinstance(v, tuple) and v[0] == 'ins' else 'del' if v == 'MISSING' else 'set')
    extra = ':' + '+'.join(sorted(set(parts)))
  return f'{kind}{extra}' + (f'[{mode}]' if mode else '')


def container_kind(world, op):
  try:
    node = resolve(world['roots'][op[2]], op[3])
    return 'Object' if isinstance(node, pg.Object) else 'Dict' if isinstance(node, pg.Dict) else 'List'
  except Exception:  # pylint: disable=broad-except
    return '?'


def val_class(op):
  """'detached' / 'existing' if the op inserts such a node, else 'fresh'."""
  found = set()

  def scan(a):
    if isinstance(a, tuple):
      if a and a[0] == 'node':
        found.add('existing')
      elif a and a[0] == 'det':
        found.add('detached')
      else:
        for e in a:
          scan(e)

  for a in op[4:]:
    scan(a)
  return 'detached' if 'detached' in found else 'existing' if 'existing' in found else 'fresh'
