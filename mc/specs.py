"""E2 grammar of value specs (shared by C03, C04, C05).

A spec is described by a JSON-able *descriptor*; `mk(desc)` builds a fresh
pyglove value spec, `acc(desc, v)` is an independent acceptor written from
the documented meaning of each spec kind (True / False / None = unspecified),
`pool(desc)` is a boundary-complete value pool.
"""
from __future__ import annotations

import itertools

import pyglove as pg

from mc import fixtures

T = pg.typing
MISSING = pg.MISSING_VALUE


# ---------------------------------------------------------------------------
# descriptors -> pyglove specs
# ---------------------------------------------------------------------------
def mk(d):
  k = d[0]
  if k == 'bool':
    return T.Bool()
  if k == 'int':
    return T.Int(min_value=d[1], max_value=d[2])
  if k == 'float':
    return T.Float(min_value=d[1], max_value=d[2])
  if k == 'str':
    return T.Str()
  if k == 'enum':
    return T.Enum(MISSING, list(d[1]))
  if k == 'any':
    return T.Any()
  if k == 'list':
    return T.List(mk(d[1]), min_size=d[2], max_size=d[3])
  if k == 'tuple':
    return T.Tuple([mk(e) for e in d[1]])
  if k == 'vtuple':
    return T.Tuple(mk(d[1]), min_size=d[2], max_size=d[3])
  if k == 'dict':
    return T.Dict([(key, mk(e)) for key, e in d[1]])
  if k == 'ddict':
    return T.Dict([(T.StrKey(d[1]), mk(d[2]))])
  if k == 'obj':
    return T.Object(getattr(fixtures, d[1]))
  if k == 'union':
    return T.Union([mk(e) for e in d[1]])
  if k == 'union?':                  # noneable through the constructor flag (not through .noneable())
    return T.Union([mk(e) for e in d[1]], is_noneable=True)
  if k == 'noneable':
    return mk(d[1]).noneable()
  if k == 'default':
    return mk(d[1]).set_default(val(d[2]))
  if k == 'frozen':
    return mk(d[1]).freeze(val(d[2]))
  raise ValueError(d)


def val(tok):
  """Value tokens (JSON-able) -> fresh values."""
  if isinstance(tok, tuple):
    if tok and tok[0] == 'L':
      return [val(t) for t in tok[1:]]
    if tok and tok[0] == 'T':
      return tuple(val(t) for t in tok[1:])
    if tok and tok[0] == 'D':
      return {k: val(t) for k, t in tok[1:]}
    if tok and tok[0] == 'O':
      return getattr(fixtures, tok[1])(**{k: val(t) for k, t in tok[2:]})
    if tok and tok[0] == 'TL':      # typed pg.List carrying its own spec
      return pg.List([val(t) for t in tok[2:]], value_spec=T.List(mk(tok[1])))
    if tok and tok[0] == 'F':
      return float(tok[1])
  if tok == 'MISSING':
    return MISSING
  if tok == 'None':
    return None
  return tok


def strip(d):
  """Removes modifiers. Returns (core, noneable, has_default, default_tok, frozen, frozen_tok)."""
  noneable = has_default = frozen = False
  dtok = ftok = None
  while d[0] in ('noneable', 'default', 'frozen'):
    if d[0] == 'noneable':
      noneable = True
    elif d[0] == 'default':
      if not has_default:
        has_default, dtok = True, d[2]
    else:
      if not frozen:
        frozen, ftok = True, d[2]
    d = d[1]
  if d[0] == 'union?':
    noneable, d = True, ('union', d[1])
  return d, noneable, has_default, dtok, frozen, ftok


def required(d):
  """A field of this spec has no value to fall back to when it is missing."""
  core, noneable, has_default, _, frozen, _ = strip(d)
  if noneable or has_default or frozen:
    return False
  if core[0] == 'dict':
    return any(required(e) for _, e in core[1])    # a Dict spec defaults to its fields' defaults
  if core[0] == 'ddict':
    return False
  return True


# ---------------------------------------------------------------------------
# independent acceptor
# ---------------------------------------------------------------------------
def _and(results):
  out = True
  for r in results:
    if r is False:
      return False
    if r is None:
      out = None
  return out


def acc(d, v, partial=False):
  """Does the spec described by d accept v (as a stored, already formalised member)?"""
  core, noneable, has_default, _, frozen, ftok = strip(d)
  if MISSING == v:
    if partial:
      return True
    # A spec with a fallback (default / frozen / noneable) substitutes it.
    return False if required(d) else None
  if isinstance(v, (pg.List, pg.Dict)) and v.value_spec is not None:
    # A container that carries its own spec may additionally be refused for
    # spec incompatibility (documented); only a content mismatch is definite.
    plain_v = pg.to_json(v)
    r = acc(d, plain_v, partial)
    return False if r is False else None
  if frozen:
    return True if plain_eq(v, val(ftok)) else False
  if v is None:
    if noneable or core[0] == 'any':
      return True
    if core[0] == 'union':
      return _or(acc(e, v, partial) for e in core[1])
    return False
  k = core[0]
  if k == 'any':
    return True
  if k == 'bool':
    return isinstance(v, bool)
  if k == 'int':
    if isinstance(v, bool):
      return None
    if not isinstance(v, int):
      return False
    return (core[1] is None or v >= core[1]) and (core[2] is None or v <= core[2])
  if k == 'float':
    if isinstance(v, bool):
      return None
    if isinstance(v, int):
      return None if ((core[1] is None or v >= core[1]) and (core[2] is None or v <= core[2])) else False
    if not isinstance(v, float):
      return False
    return (core[1] is None or v >= core[1]) and (core[2] is None or v <= core[2])
  if k == 'str':
    return isinstance(v, str)
  if k == 'enum':
    if isinstance(v, bool):
      return None
    if any(type(v) is type(c) and v == c for c in core[1]):
      return True
    try:
      return None if v in core[1] else False     # 1.0 vs 1: unspecified
    except TypeError:
      return False
  if k == 'list':
    if not isinstance(v, list):
      return False
    if len(v) < core[2] or (core[3] is not None and len(v) > core[3]):
      return False
    return _and(acc(core[1], e, partial) for e in v)
  if k == 'tuple':
    if not isinstance(v, tuple):
      return False
    if len(v) != len(core[1]):
      return False
    return _and(acc(e, x, partial) for e, x in zip(core[1], v))
  if k == 'vtuple':
    if not isinstance(v, tuple):
      return False
    if len(v) < core[2] or (core[3] is not None and len(v) > core[3]):
      return False
    return _and(acc(core[1], e, partial) for e in v)
  if k == 'dict':
    if not isinstance(v, dict):
      return False
    declared = dict(core[1])
    if any(key not in declared for key in v.keys()):
      return False
    res = []
    for key, e in core[1]:
      if key in v:
        res.append(acc(e, v[key], partial))
      elif required(e) and not partial:
        res.append(False)
    return _and(res)
  if k == 'ddict':
    import re
    if not isinstance(v, dict):
      return False
    if any(not (isinstance(key, str) and re.fullmatch(core[1], key)) for key in v.keys()):
      return False
    return _and(acc(core[2], e, partial) for e in v.values())
  if k == 'obj':
    return isinstance(v, getattr(fixtures, core[1]))
  if k == 'union':
    return _or(acc(e, v, partial) for e in core[1])
  raise ValueError(d)


def _or(results):
  out = False
  for r in results:
    if r is True:
      return True
    if r is None:
      out = None
  return out


def plain_eq(a, b):
  try:
    return bool(pg.eq(a, b))
  except Exception:  # pylint: disable=broad-except
    return a == b


# ---------------------------------------------------------------------------
# boundary-complete value pools (tokens)
# ---------------------------------------------------------------------------
# NOTE: numerically equal values of different numeric types (1.0 vs 1) are left out on purpose: frozen / enum
# membership is defined by ==, so they are accepted wherever their integer twin is.
PRIMS = (0, 1, 2, 3, -1, True, ('F', 0.5), ('F', 1.5), ('F', -0.5), 'a', '', 'None', 'MISSING')


def pool(d, depth=0):
  """Value tokens around every boundary of d (inside, on, just outside, wrong type, None, MISSING)."""
  core, _, _, _, _, ftok = strip(d)
  out = list(PRIMS)
  k = core[0]
  if ftok is not None:
    out.append(ftok)
  if k == 'list':
    elems = [t for t in (pool(core[1], depth + 1) if depth < 1 else PRIMS) if t != 'MISSING']
    good = [t for t in elems if acc(core[1], val(t)) is True][:2]
    badv = [t for t in elems if acc(core[1], val(t)) is False][:2] or ['a']
    if not good:
      return out
    g = good[0]
    for n in range(0, 5):
      out.append(('L',) + tuple([g] * n))
    out.append(('L', g, badv[0]))
    out.append(('L', badv[0]))
    if len(good) > 1:
      out.append(('L', good[1], g))
    out.append(('T', g))
    out.append(('TL', ('int', None, None), -5))
    out.append(('TL', core[1], g))
  elif k in ('tuple', 'vtuple'):
    es = core[1] if k == 'tuple' else [core[1]] * 2
    goods = []
    for e in es:
      c = [t for t in pool(e, depth + 1) if acc(e, val(t)) is True] if depth < 1 else [0]
      goods.append(c[0] if c else 0)
    out.append(('T',) + tuple(goods))
    out.append(('T',) + tuple(goods[:1]))
    out.append(('T',) + tuple(goods) + (goods[0],))
    out.append(('T',) + tuple(goods) + (goods[0], goods[0]))
    out.append(('T',))
    out.append(('T', 'a') + tuple(goods[1:]))
    out.append(('L',) + tuple(goods))
  elif k == 'dict':
    good = {}
    for key, e in core[1]:
      c = [t for t in pool(e, depth + 1) if acc(e, val(t)) is True] if depth < 1 else [0]
      good[key] = c[0] if c else 0
    items = tuple(good.items())
    out.append(('D',) + items)
    out.append(('D',) + items[:1])
    out.append(('D',) + items[1:])
    out.append(('D',))
    out.append(('D',) + items + (('zz', 0),))
    if items:
      badv = [t for t in PRIMS if acc(core[1][0][1], val(t)) is False]
      out.append(('D', (items[0][0], badv[0] if badv else 'a')) + items[1:])
  elif k == 'ddict':
    out.append(('D',))
    out.append(('D', ('k1', 0)))
    out.append(('D', ('k1', 'a')))
    out.append(('D', ('x', 0)))
    out.append(('D', ('k1', 0), ('k2', 1)))
  elif k == 'obj':
    out.append(('O', core[1]))
    out.append(('O', 'Leafy'))
    out.append(('D',))
  elif k == 'union':
    for e in core[1]:
      out += [t for t in pool(e, depth + 1) if t not in out][:12]
    out.append(('TL', ('int', None, None), -5))
  elif k == 'any':
    out += [('L', 0), ('D', ('a', 0)), ('T', 0)]
  seen = []
  for t in out:
    if t not in seen:
      seen.append(t)
  return seen


# ---------------------------------------------------------------------------
# the grammar
# ---------------------------------------------------------------------------
ATOMS = (
    ('bool',), ('int', None, None), ('int', 0, 2), ('int', 1, None), ('int', None, 1),
    ('float', None, None), ('float', 0.0, 1.0), ('str',), ('enum', (0, 1, 2)), ('enum', ('a', 1)), ('any',),
)


def modifiers(d, good_tok, other_tok=None):
  """d with noneable / default / frozen modifiers (good_tok is a value d accepts)."""
  out = [d, ('noneable', d), ('default', d, good_tok), ('frozen', d, good_tok),
         ('noneable', ('default', d, good_tok)), ('frozen', ('noneable', d), good_tok)]
  return out


def first_good(d):
  for t in pool(d):
    if t not in ('MISSING', 'None') and acc(d, val(t)) is True:
      return t
  return None


def grammar(depth=1, wide=False):
  """All spec descriptors up to the nesting depth (simplest first)."""
  level0 = []
  for a in ATOMS:
    g = first_good(a)
    level0 += modifiers(a, g) if g is not None else [a]
  specs = list(level0)
  if depth >= 1:
    elems = [('int', None, None), ('int', 0, 2), ('str',), ('noneable', ('int', 0, 2)), ('any',),
             ('default', ('int', None, None), 1)]
    if wide:
      elems = list(level0[:])
    conts = []
    for e in elems:
      for lo, hi in ((0, None), (1, 2), (0, 0), (2, None), (0, 1)):
        conts.append(('list', e, lo, hi))
      for lo, hi in ((0, None), (1, 2), (2, 2)):
        conts.append(('vtuple', e, lo, hi))
      conts.append(('ddict', 'k.*', e))
    for a, b in itertools.product(elems[:4], repeat=2):
      conts.append(('tuple', (a, b)))
      conts.append(('dict', (('a', a), ('b', b))))
      if a != b:
        conts.append(('union', (a, b)))
    conts.append(('dict', (('a', ('int', 0, 2)),)))
    conts.append(('dict', ()))
    conts.append(('obj', 'Node'))
    conts.append(('obj', 'Typed'))
    conts.append(('union', (('int', 0, 2), ('list', ('int', 0, None), 0, None))))
    conts.append(('union', (('str',), ('obj', 'Node'))))
    for c in conts:
      g = first_good(c)
      specs += [c, ('noneable', c)] + ([('default', c, g)] if g is not None else [])
    if depth >= 2:
      inner = [('list', ('int', 0, 2), 1, 2), ('dict', (('a', ('int', 0, 2)), ('b', ('default', ('str',), 'a')))),
               ('tuple', (('int', None, None), ('str',))), ('union', (('int', 0, 2), ('str',))),
               ('noneable', ('list', ('int', None, None), 0, 1))]
      for e in inner:
        for c in (('list', e, 0, None), ('list', e, 1, 2), ('vtuple', e, 0, 2), ('ddict', 'k.*', e),
                  ('dict', (('a', e), ('b', ('int', None, None)))), ('tuple', (e, ('int', 0, 2))),
                  ('union', (e, ('bool',)))):
          if c[0] == 'union' and e[0] == 'union':
            continue
          specs.append(c)
          specs.append(('noneable', c))
  seen = set()
  out = []
  for s in specs:
    if s not in seen:
      seen.add(s)
      try:
        mk(s)
      except (TypeError, ValueError):
        continue          # not a constructible spec (e.g. union of two ints)
      out.append(s)
  return out
