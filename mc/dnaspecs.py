"""E2 grammar of DNASpecs with an independent reference of the set of valid DNAs.

descriptor grammar (JSON-able):
  space := ('space', (elem, ...))
  elem  := ('one', (cand, ...)) | ('many', n, (cand, ...), distinct, sorted) | ('float', lo, hi) | ('custom',)
  cand  := ('c',) | space

A DNA is described by a *literal* in pg.DNA's constructor format:
  space literal  = literal of its only element, or [literal per element]
  one   literal  = i | (i, <space literal of candidate i>)
  many  literal  = [one-literal per choice]
"""
from __future__ import annotations

import itertools

import pyglove as pg

G = pg.geno


# ---------------------------------------------------------------------------
def mk(d, names=False, literals=False, counter=None, loc=None):
  """Builds the pg.geno spec; every decision point gets a distinct relative location (as pg.dna_spec does)."""
  counter = counter if counter is not None else [0]
  if d[0] == 'space':
    return G.space([mk(e, names, literals, counter, f'x{j}') for j, e in enumerate(d[1])])
  if d[0] == 'c':
    return G.constant()
  kw = {}
  if loc is not None:
    kw['location'] = pg.KeyPath(loc)
  if names:
    counter[0] += 1
    kw['name'] = f'dp{counter[0]}'
  if d[0] == 'one':
    cands = [mk(c, names, literals, counter) for c in d[1]]
    if literals:
      kw['literal_values'] = [f'v{i}' for i in range(len(cands))]
    return G.oneof(cands, **kw)
  if d[0] == 'many':
    cands = [mk(c, names, literals, counter) for c in d[2]]
    if literals:
      kw['literal_values'] = [f'v{i}' for i in range(len(cands))]
    return G.manyof(d[1], cands, distinct=d[3], sorted=d[4], **kw)
  if d[0] == 'float':
    return G.floatv(d[1], d[2], **kw)
  if d[0] == 'custom':
    return G.custom(**kw)
  raise ValueError(d)


def is_finite(d):
  if d[0] == 'space':
    return all(is_finite(e) for e in d[1])
  if d[0] == 'c':
    return True
  if d[0] == 'one':
    return all(is_finite(c) for c in d[1])
  if d[0] == 'many':
    return all(is_finite(c) for c in d[2])
  return False


# ---------------------------------------------------------------------------
# reference: the valid literals, in lexicographic order
# ---------------------------------------------------------------------------
def space_literals(d):
  assert d[0] == 'space'
  per = [elem_literals(e) for e in d[1]]
  if len(per) == 1:
    out = list(per[0])
  else:
    out = [list(t) for t in itertools.product(*per)]
  # the order of the space: lexicographic on the flattened decisions
  return sorted(out, key=flat)


def cand_literals(i, c):
  if c[0] == 'c' or (c[0] == 'space' and not c[1]):
    return [i]
  return [(i, s) for s in space_literals(c)]


def elem_literals(e):
  if e[0] == 'one':
    out = []
    for i, c in enumerate(e[1]):
      out += cand_literals(i, c)
    return out
  if e[0] == 'many' and e[1] == 1:
    # a multi-choice of one choice is a single choice (DNA value, not a list)
    return elem_literals(('one', e[2]))
  if e[0] == 'many':
    n, cands, distinct, srt = e[1], e[2], e[3], e[4]
    out = []
    for idx in itertools.product(range(len(cands)), repeat=n):
      if distinct and len(set(idx)) != n:
        continue
      if srt and list(idx) != sorted(idx):
        continue
      per = [cand_literals(i, cands[i]) for i in idx]
      out += [list(t) for t in itertools.product(*per)]
    return out
  raise ValueError(f'not enumerable: {e!r}')


def size(d):
  return len(space_literals(d))


def freeze(lit):
  """Hashable form of a literal."""
  if isinstance(lit, list):
    return ('L',) + tuple(freeze(x) for x in lit)
  if isinstance(lit, tuple):
    return ('T',) + tuple(freeze(x) for x in lit)
  return lit


def flat(lit):
  """Flattened numbers of a literal."""
  if isinstance(lit, (list, tuple)):
    out = []
    for x in lit:
      out += flat(x)
    return out
  return [lit]


def ctor(lit):
  """The literal in the form the pg.DNA constructor reads: a conditional chain is ONE flat tuple ((1, (1, 0)) -> (1, 1, 0));
  the nested-tuple form is silently truncated by the constructor."""
  if isinstance(lit, tuple) and len(lit) == 2 and isinstance(lit[1], tuple):
    inner = ctor(lit[1])
    return (ctor(lit[0]),) + (inner if isinstance(inner, tuple) else (inner,))
  if isinstance(lit, tuple):
    return tuple(ctor(x) for x in lit)
  if isinstance(lit, list):
    return [ctor(x) for x in lit]
  return lit


def dna_literal(dna):
  """The literal of a DNA read through its public structure (value / children)."""
  kids = [dna_literal(c) for c in dna.children]
  if dna.value is None:
    return kids
  if not kids:
    return dna.value
  return (dna.value, kids[0] if len(kids) == 1 else kids)


# ---------------------------------------------------------------------------
# one-step corruptions of a literal
# ---------------------------------------------------------------------------
def corruptions(lit):
  """All literals one edit away: +-1 on a number, wrong scalar type, dropped / duplicated / swapped child."""
  out = []

  def rec(x, rebuild):
    if isinstance(x, float):
      out.append(rebuild((x, 1)))                                   # children under a float decision
      out.append(rebuild((x, [0, 0])))
      return
    if isinstance(x, bool) or not isinstance(x, (int, list, tuple)):
      return
    if isinstance(x, int):
      for y in (x + 1, x - 1, -1, 99, float(x) + 0.5, 'a', None):
        if y != x:
          out.append(rebuild(y))
      return
    seq = list(x)
    kind = tuple if isinstance(x, tuple) else list
    for i, c in enumerate(seq):
      rec(c, lambda y, i=i: rebuild(kind(seq[:i] + [y] + seq[i + 1:])))
    if isinstance(x, list):
      out.append(rebuild((1, seq)))                                 # a value on a node that only groups children
      out.append(rebuild((7, seq)))
      for i in range(len(seq)):
        out.append(rebuild(seq[:i] + seq[i + 1:]))                 # drop
        out.append(rebuild(seq[:i] + [seq[i]] + seq[i:]))           # duplicate
      for i in range(len(seq) - 1):
        out.append(rebuild(seq[:i] + [seq[i + 1], seq[i]] + seq[i + 2:]))   # swap
      out.append(rebuild(seq + [0]))
    else:
      # (i, sub): drop the sub-DNA / keep only the sub-DNA
      out.append(rebuild(seq[0]))
      out.append(rebuild(seq[1]))
  rec(lit, lambda y: y)
  if isinstance(lit, int):
    out.append((lit, 0))
    out.append([lit, 0])
  seen = set()
  uniq = []
  for o in out:
    f = repr(o)
    if f not in seen:
      seen.add(f)
      uniq.append(o)
  return uniq


# ---------------------------------------------------------------------------
# the grammar of specs
# ---------------------------------------------------------------------------
C = ('c',)


def grammar(max_size, level='quick'):
  inner = [
      ('space', (('one', (C, C)),)),
      ('space', (('one', (C, C)), ('one', (C, C, C)))),
      ('space', (('many', 2, (C, C, C), True, True),)),
      ('space', (('many', 2, (C, C), False, False),)),
  ]
  cand_sets = [(C,), (C, C), (C, C, C)]
  for s in inner:
    cand_sets += [(C, s), (s, C), (C, C, s), (s, s)]
  if level != 'quick':
    deep = ('space', (('one', (C, inner[0])),))
    cand_sets += [(C, deep), (deep, C, inner[2])]
    cand_sets += [(C, C, C, C)]
  elems = []
  for cs in cand_sets:
    elems.append(('one', cs))
    for n in (1, 2, 3):
      for distinct in (True, False):
        for srt in (True, False):
          if distinct and n > len(cs):
            continue
          if n == 3 and len(cs) < 3 and level == 'quick':
            continue
          elems.append(('many', n, cs, distinct, srt))
  for cs in [(C, C, C, C)]:
    for n in (2, 3):
      for distinct in (True, False):
        for srt in (True, False):
          elems.append(('many', n, cs, distinct, srt))
  specs = [('space', (e,)) for e in elems]
  # two-element spaces: all ordered pairs of a covering pool of element shapes
  pool = [('one', (C, C)), ('one', (C, inner[0])), ('one', (inner[1], C)),
          ('many', 2, (C, C, C), True, True), ('many', 2, (C, C, C), True, False),
          ('many', 2, (C, C), False, True), ('many', 2, (C, C), False, False),
          ('many', 2, (C, inner[0]), True, False), ('many', 1, (C, C), True, False)]
  pairs = list(itertools.product(pool, repeat=2))
  if level == 'quick':
    pairs = pairs[::3]
  for a, b in pairs:
    specs.append(('space', (a, b)))
  out = []
  seen = set()
  for s in specs:
    if s in seen:
      continue
    seen.add(s)
    try:
      n = size(s)
    except Exception:  # pylint: disable=broad-except
      continue
    if 1 <= n <= max_size:
      out.append(s)
  return out


def infinite_specs():
  """Specs with float / custom decision points (validate / random only)."""
  F = ('float', 0.0, 1.0)
  return [
      ('space', (F,)),
      ('space', (('one', (C, ('space', (F,)))),)),
      ('space', (('many', 2, (C, ('space', (F,)), C), True, False), F)),
      ('space', (('custom',),)),
      ('space', (('one', (C, C)), ('custom',))),
  ]


# ---------------------------------------------------------------------------
# independent validator of a literal against a descriptor (handles float / custom too)
# ---------------------------------------------------------------------------
def valid_space(d, lit):
  elems = d[1]
  if not elems:
    return lit == [] or lit is None
  if len(elems) == 1:
    return valid_elem(elems[0], lit)
  return isinstance(lit, list) and len(lit) == len(elems) and all(valid_elem(e, x) for e, x in zip(elems, lit))


def valid_one(cands, x):
  if isinstance(x, bool):
    return False
  if isinstance(x, int):
    return 0 <= x < len(cands) and (cands[x][0] == 'c' or not cands[x][1])
  if isinstance(x, tuple) and len(x) == 2 and isinstance(x[0], int) and not isinstance(x[0], bool):
    i = x[0]
    return 0 <= i < len(cands) and cands[i][0] == 'space' and bool(cands[i][1]) and valid_space(cands[i], x[1])
  return False


def valid_elem(e, x):
  if e[0] == 'one':
    return valid_one(e[1], x)
  if e[0] == 'many' and e[1] == 1:
    return valid_one(e[2], x)
  if e[0] == 'many':
    n, cands, distinct, srt = e[1], e[2], e[3], e[4]
    if not isinstance(x, list) or len(x) != n:
      return False
    if not all(valid_one(cands, y) for y in x):
      return False
    idx = [y if isinstance(y, int) else y[0] for y in x]
    if distinct and len(set(idx)) != n:
      return False
    if srt and idx != sorted(idx):
      return False
    return True
  if e[0] == 'float':
    return isinstance(x, float) and e[1] <= x <= e[2]
  if e[0] == 'custom':
    return isinstance(x, str)
  return False
