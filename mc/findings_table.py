"""Prints the DESIGN.md tables of repaired and open findings from known_findings.json (python3 -m mc.findings_table fixed|open)."""
import json
import os
import sys

VERIF = os.path.dirname(os.path.dirname(os.path.abspath(__file__)))


def main():
  which = sys.argv[1] if len(sys.argv) > 1 else 'fixed'
  k = json.load(open(os.path.join(VERIF, 'known_findings.json')))
  if which == 'fixed':
    print('| property | commit | what failed |')
    print('|---|---|---|')
    for f in k['findings']:
      if f.get('status') == 'fixed':
        print(f"| {f['property']} | `{f['commit']}` | {f['what'].replace('|', '/')} |")
  else:
    print('| property | signature | what |')
    print('|---|---|---|')
    for f in k['findings']:
      if f.get('status') == 'open':
        print(f"| {f['property']} | `{f['signature']}` | {f['what'].replace('|', '/')} |")


if __name__ == '__main__':
  main()
