"""Prints the DESIGN.md table of seeded changes from seeded/*/meta.json (python3 -m mc.seed_table)."""
import glob
import json
import os

VERIF = os.path.dirname(os.path.dirname(os.path.abspath(__file__)))

# what the check had to learn before it reported the change ('' = reported by the check as it was)
STRENGTHENING = {
    'C01_a_m1': 'notification modes on every list / dict mutator',
    'C01_a_m2': 'roots with dotted / bracketed keys',
    'C06_a_m1': 'dict values holding MISSING_VALUE',
    'C07_a_m1': 'tuples nested two deep; identity through tuples',
    'C07_a_m2': 'sealed-by-default classes that were unsealed',
    'C08_a_m2': 'roots sealed at construction (flag, class default, clone)',
    'C10_a_m1': 'formatting-call-order clause',
    'C12_a_m1': 're-ordered bound sub-DNAs; conditional permutations in C14',
    'C12_a_m2': 'view-consumed clause (second use of a view)',
    'C13_a_m2': 'evolvable placeholder chains',
    'C14_a_m1': 'hard-merge parents, 8 global random states',
    'C17_a_m2': 'blocks left by BaseException',
    'C18_a_m1': 'nested subclassed functors',
    'C20_a_m2': 'failing follow-up rendering counted as a violation',
    'C01_b_m2': 'root with the empty-string key',
    'C03_b_m2': 'nested list / dict written through ancestor key paths and insertion markers',
    'C05_b_m1': 'functions built from one code object with different (keyword) defaults',
    'C05_b_m2': 'writers / appenders that add nothing',
    'C09_b_m1': 'probe: a node the call removed is changed afterwards (also exposed the vacuous value decoding, section 5)',
    'C09_b_m2': 'handler lookup over a class hierarchy in all 24 first-use orders',
    'C11_b_m2': 'an exhausted sweep is asked again (added from the description, before the first run)',
    'C13_b_m2': 'decode the parent again right after a DNA was derived from it (added from the description, before the first run)',
    'C14_b_m2': '6 global random states x 3 applications of one operator instance (made for the recombinator finding)',
    'C17_b_m2': 'dict-valued view options with a deep-merge model (added from the description, before the first run)',
    'C02_b_m1': 'every two-path batch rebind on lists of 11-12 elements (two-digit indices)',
    'C02_b_m2': 'ordered three-path batches: write below a container, replace it, write below it again',
    'C06_b_m1': 'objects / typed dicts with free-form keys inserted in different orders',
    'C06_b_m2': 'values reached by mutation after being hashed once (notifying and non-notifying writes) next to their constructed twins',
    'C07_b_m2': 'mutable plain leaves two levels below a tuple; leaf sharing is checked through tuples / plain containers',
    'C08_b_m2': 'invariant: no operation changes the protection flags of a surviving node; typed containers with accessors off',
    'C12_b_m1': 'producers must not modify their input (values and bound decision points of every node)',
    'C12_b_m2': 'lookups by decision point / id (whole multi-choices too) repeated after the name table was built',
    'C18_b_m1': 'binding histories (set / unset / del / nested / batched rebinds), four call forms after every step',
    'C18_b_m2': 'same (batches mixing a nested path with a top-level argument)',
    'C19_b_m2': 'explicit argument intersected with an enclosing scope, both directions',
    'C06_c_m1': 'quick universe: dicts with one key set in different insertion orders and crossed values (plain, pg.Dict, nested, int / mixed keys, three keys); the thorough universe already had them',
    'C05_c_m1': 'file histories: overwrite while a reader that read to the end is still open (peeksave step)',
    'C20_b_m1': 'callable include_keys / exclude_keys (keep-all differential, filter by last key)',
}


def main():
  rows = []
  for p in sorted(glob.glob(os.path.join(VERIF, 'seeded', '*', 'meta.json'))):
    m = json.load(open(p))
    name = m['seed']
    caught = sorted({d['check'] for d in m.get('detected_by', []) if d.get('exit_code') == 1 and d.get('violations', 0) > 0})
    missed = sorted({d['check'] for d in m.get('detected_by', []) if not (d.get('exit_code') == 1 and d.get('violations', 0) > 0)
                     and d['check'] not in caught})
    c = ', '.join(caught) if caught else 'MISSED'
    if missed:
      c += f' (not by {", ".join(missed)})'
    rows.append(f"| {name} | {m['breaks_property']} | {m['needs_to_manifest']} | {c} | {STRENGTHENING.get(name, '')} |")
  print('| seed | property | needs to manifest | caught by | strengthening it triggered |')
  print('|---|---|---|---|---|')
  print('\n'.join(rows))


if __name__ == '__main__':
  main()
