"""Prints the sub-agent prompt for seeding a property-breaking change: python3 -m mc.seed_prompt C04 a"""
import json, sys
pid, tag = sys.argv[1], sys.argv[2]
focus = sys.argv[3] if len(sys.argv) > 3 else ''
p = [json.loads(l) for l in open('/verif/properties.jsonl') if json.loads(l)['id'] == pid][0]
wt = f'/tmp/wt_{pid}_{tag}'
out = f'/tmp/seed_out/{pid}_{tag}'
print(f"""You are helping test a verification tool by acting as a careful "bug seeder" for the open-source Python library google/pyglove.

The library's git repository is at /repo (do NOT edit anything in /repo or in /verif, and do not read /verif). Create your own scratch git worktree and work only there:

    git -C /repo worktree add --detach {wt} HEAD

Property of pyglove that should always hold ({pid}: {p['title']}):

    {p['statement']}

    Quantified: {p['quantifier']['text']}

Your job: produce TWO different, independent, realistic changes (call them m1 and m2) to the library source under {wt}/pyglove (not to tests) such that each change BREAKS the property above, while the library still imports and the existing test suite still passes. Each change should look like a plausible refactoring slip or optimisation a developer could make (a dropped copy, a shortcut, an off-by-one in an unusual branch, a cache not invalidated, a check moved, two sites that each look fine alone), and it should need something SPECIFIC to manifest - an unusual input shape, a multi-step sequence of operations, a particular interleaving/crash point/nesting - NOT something that ordinary use or the unit tests would expose at once. Do not pick a behaviour that is already broken on the unmodified code (check your demonstration PASSES on unmodified /repo code first). {focus}

For each change:
 1. Make the edit in the worktree (start each from a clean worktree: `git -C {wt} checkout -- .` between m1 and m2, so the two patches are independent).
 2. Run the existing tests from inside the worktree and make sure they pass (the two tests in pyglove/core/io/file_system_test.py about the standard file system are known-flaky and may fail; ignore those two only):
        cd {wt} && /venv/bin/python -m pytest -q -p no:cacheprovider -n 8 --timeout=900 pyglove 2>&1 | tail -5
    (Running from the worktree directory makes `import pyglove` resolve to the worktree copy. For stand-alone scripts use `cd {wt} && PYTHONPATH={wt} /venv/bin/python demo.py` and verify with `print(pyglove.__file__)`.)
 3. Write a small demonstration program (plain Python script using only pyglove's public API, exits non-zero / raises AssertionError when the property is violated) that FAILS with your change and PASSES on the unmodified code (run it both ways: with PYTHONPATH={wt} and with PYTHONPATH=/repo).
 4. Save into {out}/m1/ (resp. m2/): `patch.diff` (output of `git -C {wt} diff`), `demo.py`, and `notes.md` (what the change is, why it breaks the property, what it needs in order to manifest, and the exact commands you ran with their results: the test-suite tail line, demo output with and without the change).

When both are done, remove your worktree: `git -C /repo worktree remove --force {wt}`. Reply with a short summary of the two changes (files touched, what is needed to trigger). Do not use the network. Do not commit anything.""")
