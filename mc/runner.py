"""Runner: ./check <ID> [--tier quick|thorough] [--replay FILE] [--seed N].

Contract (MANIFEST): exit 0 if the property held on everything explored
(violations that match an *open* entry of known_findings.json are printed as
KNOWN-FINDING lines and do not fail the run); exit 1 and print
`VIOLATION property=<id> replay=<path>` for every violation signature that is
not listed.  evidence/<id>.json is rewritten on every run from measured
counters.
"""
from __future__ import annotations

import argparse
import collections
import importlib
import json
import multiprocessing
import os
import random
import re
import sys
import time
import traceback

VERIF = os.path.dirname(os.path.dirname(os.path.abspath(__file__)))
NPROC = int(os.environ.get('VERIF_NPROC', '0')) or min(16, os.cpu_count() or 1)
MAX_SAMPLES = 6


class Rec:
  """Recorder for counters / violations; picklable, mergeable."""

  def __init__(self):
    self.viols = {}            # sig -> dict(sig, what, replay, count)
    self.stats = collections.Counter()
    self.evals = 0             # executions on the real implementation
    self.states = 0
    self.trans = 0
    self.nontrivial = set()    # hashes of distinct non-trivial cases
    self.samples = []
    self.extra = {}            # additional coverage keys (max-merged ints / lists)
    self.capped = []           # reasons exhaustive is False

  # -- recording ---------------------------------------------------------
  def viol(self, sig, what, replay=None):
    v = self.viols.get(sig)
    if v is None:
      self.viols[sig] = dict(sig=sig, what=str(what)[:2000], replay=replay, count=1)
    else:
      v['count'] += 1

  def stat(self, key, n=1):
    self.stats[key] += n

  def nt(self, key):
    self.nontrivial.add(hash(key) if isinstance(key, (str, int, tuple)) else hash(repr(key)))

  def sample(self, obj):
    if len(self.samples) < MAX_SAMPLES:
      self.samples.append(obj)

  def cap(self, reason):
    if reason not in self.capped:
      self.capped.append(reason)

  def note(self, key, value):
    """Record an extra coverage number (merged with max) or value."""
    old = self.extra.get(key)
    if isinstance(value, (int, float)) and isinstance(old, (int, float)):
      self.extra[key] = max(old, value)
    else:
      self.extra[key] = value

  def add(self, key, n=1):
    self.extra[key] = self.extra.get(key, 0) + n

  # -- merging -----------------------------------------------------------
  def merge(self, other, additive_extra=True):
    for sig, v in other.viols.items():
      mine = self.viols.get(sig)
      if mine is None:
        self.viols[sig] = dict(v)
      else:
        mine['count'] += v['count']
        # keep the smaller witness (shortest replay encoding)
        if len(json.dumps(v['replay'], default=str)) < len(json.dumps(mine['replay'], default=str)):
          mine['replay'] = v['replay']
          mine['what'] = v['what']
    self.stats.update(other.stats)
    self.evals += other.evals
    self.states += other.states
    self.trans += other.trans
    self.nontrivial |= other.nontrivial
    for s in other.samples:
      self.sample(s)
    for k, val in other.extra.items():
      if isinstance(val, (int, float)) and isinstance(self.extra.get(k, 0), (int, float)) and additive_extra:
        self.extra[k] = self.extra.get(k, 0) + val
      else:
        self.extra.setdefault(k, val)
    for c in other.capped:
      self.cap(c)


_PFN = None


def _pworker(chunk):
  rec = Rec()
  results = []
  for item in chunk:
    try:
      results.append((item, _PFN(rec, item)))
    except Exception:  # harness bug: surface loudly, never as a violation
      rec.stat('HARNESS_ERROR')
      rec.extra.setdefault('harness_errors', [])
      if len(rec.extra['harness_errors']) < 3:
        rec.extra['harness_errors'].append(
            dict(item=repr(item)[:500], tb=traceback.format_exc()[-3000:]))
  return rec, results


class Ctx(Rec):
  """Run context handed to each property module."""

  def __init__(self, pid, tier, seed):
    super().__init__()
    self.pid = pid
    self.tier = tier
    self.seed = seed
    self.assumptions = []
    self.rule = ''
    self.level = 'model_checking'
    self.t0 = time.time()
    self.rng = random.Random(seed)

  @property
  def thorough(self):
    return self.tier == 'thorough'

  def elapsed(self):
    return time.time() - self.t0

  def pmap(self, fn, items, chunk=None, nproc=None):
    """Runs fn(rec, item) for every item on a worker pool; merges records.

    The set of items explored does not depend on VERIF_SEED; only their order
    (and therefore which samples are recorded) does.
    """
    global _PFN
    items = list(items)
    out = []
    if not items:
      return out
    order = list(range(len(items)))
    if self.seed:
      random.Random(self.seed).shuffle(order)
    items = [items[i] for i in order]
    nproc = nproc or NPROC
    if chunk is None:
      chunk = max(1, min(64, len(items) // (nproc * 8) or 1))
    chunks = [items[i:i + chunk] for i in range(0, len(items), chunk)]
    _PFN = fn
    if nproc == 1 or len(chunks) == 1:
      for c in chunks:
        rec, res = _pworker(c)
        self.merge(rec)
        out.extend(res)
      return out
    mp = multiprocessing.get_context('fork')
    with mp.Pool(nproc) as pool:
      for rec, res in pool.imap_unordered(_pworker, chunks):
        self.merge(rec)
        out.extend(res)
    return out


# ---------------------------------------------------------------------------

def load_known():
  path = os.path.join(VERIF, 'known_findings.json')
  if not os.path.exists(path):
    return []
  with open(path) as f:
    return json.load(f).get('findings', [])


def _safe(s):
  return re.sub(r'[^A-Za-z0-9_.=-]+', '_', s)[:150]


def check_repo_binding():
  import pyglove  # pylint: disable=g-import-not-at-top
  p = os.path.realpath(pyglove.__file__)
  if not p.startswith('/repo/'):
    print(f'FATAL: pyglove imported from {p}, not from /repo', file=sys.stderr)
    sys.exit(2)


def write_evidence(ctx, wall, n_new, n_known):
  cov = dict(
      states=int(ctx.states),
      transitions=int(ctx.trans),
      traces_validated_against_impl=int(ctx.evals),
      evaluations=int(ctx.evals),
      distinct_nontrivial=len(ctx.nontrivial),
      rule=ctx.rule,
      samples=ctx.samples[:MAX_SAMPLES] or ['<none recorded>'],
      exhaustive=not ctx.capped and ctx.stats.get('HARNESS_ERROR', 0) == 0,
      caps_hit=ctx.capped,
      outcome_histogram={str(k): v for k, v in sorted(ctx.stats.items(), key=lambda kv: str(kv[0]))},
  )
  for k, v in ctx.extra.items():
    cov.setdefault(k, v)
  ev = dict(
      property_id=ctx.pid,
      tier=ctx.tier,
      seed=int(ctx.seed),
      level=ctx.level,
      coverage=cov,
      assumptions=ctx.assumptions,
      wall_s=round(wall, 2),
      violations=int(n_new),
      known_findings_observed=int(n_known),
  )
  os.makedirs(os.path.join(VERIF, 'evidence'), exist_ok=True)
  path = os.path.join(VERIF, 'evidence', f'{ctx.pid}.json')
  tmp = path + '.tmp'
  with open(tmp, 'w') as f:
    json.dump(ev, f, indent=1, default=str, sort_keys=False)
    f.write('\n')
  os.replace(tmp, path)
  return path


def main(argv=None):
  ap = argparse.ArgumentParser()
  ap.add_argument('pid')
  ap.add_argument('--tier', default=os.environ.get('VERIF_TIER') or 'quick',
                  choices=['quick', 'thorough'])
  ap.add_argument('--seed', type=int,
                  default=int(os.environ.get('VERIF_SEED', '0') or 0))
  ap.add_argument('--replay', default=None)
  args = ap.parse_args(argv)
  pid = args.pid.upper()
  check_repo_binding()
  mod = importlib.import_module(f'mc.props.{pid.lower()}')

  if args.replay:
    with open(args.replay) as f:
      data = json.load(f)
    rec = Rec()
    mod.replay(rec, data.get('replay', data))
    if rec.viols:
      for v in rec.viols.values():
        print(f'REPLAY: property={pid} signature={v["sig"]} {v["what"]}')
      print(f'VIOLATION property={pid} replay={args.replay}')
      return 1
    print(f'REPLAY: property={pid} no violation reproduced')
    return 0

  ctx = Ctx(pid, args.tier, args.seed)
  rdir0 = os.path.join(VERIF, 'replays', pid)
  if os.path.isdir(rdir0):          # replay files of earlier runs are stale
    for f in os.listdir(rdir0):
      if f.endswith('.json'):
        os.remove(os.path.join(rdir0, f))
  t0 = time.time()
  mod.run(ctx)
  wall = time.time() - t0

  known = [k for k in load_known() if k.get('property') == pid]
  open_sigs = {k['signature']: k for k in known if k.get('status') == 'open'}
  new, seen_known = [], []
  for sig, v in sorted(ctx.viols.items()):
    if sig in open_sigs:
      seen_known.append(sig)
    else:
      new.append(v)
  for sig, k in sorted(open_sigs.items()):
    obs = 'observed' if sig in seen_known else 'not-reached-at-this-tier'
    print(f'KNOWN-FINDING: property={pid} {sig}: {k.get("what", "")} [{obs}]')

  rc = 0
  # an operation outcome that can only come from the harness itself (never from the library under test) is a harness error
  for k, v in list(ctx.stats.items()):
    if k.rsplit(':', 1)[-1] in ('RecursionError', 'NameError', 'UnboundLocalError', 'ImportError') and k != 'HARNESS_ERROR':
      ctx.stats['HARNESS_ERROR'] = ctx.stats.get('HARNESS_ERROR', 0) + v
      ctx.extra.setdefault('harness_errors', []).insert(0, dict(item=f'{v} operations ended with {k}', tb='(outcome class that only the harness can produce)'))
  if ctx.stats.get('HARNESS_ERROR'):
    print(f'HARNESS-ERROR property={pid} count={ctx.stats["HARNESS_ERROR"]}', file=sys.stderr)
    for e in ctx.extra.get('harness_errors', [])[:3]:
      print(e['item'], '\n', e['tb'], file=sys.stderr)
    rc = 2
  rdir = os.path.join(VERIF, 'replays', pid)
  for v in new:
    os.makedirs(rdir, exist_ok=True)
    path = os.path.join(rdir, _safe(v['sig']) + '.json')
    with open(path, 'w') as f:
      json.dump(dict(property=pid, signature=v['sig'], what=v['what'],
                     occurrences=v['count'], replay=v['replay']), f, indent=1, default=str)
    print(f'VIOLATION property={pid} replay={path}')
    print(f'  signature={v["sig"]} occurrences={v["count"]}: {v["what"][:400]}')
    rc = 1          # a reported violation always exits 1 (harness errors alone exit 2)
  path = write_evidence(ctx, wall, len(new), len(seen_known))
  print(f'[{pid} {args.tier} seed={args.seed}] states={ctx.states} transitions={ctx.trans} '
        f'executions={ctx.evals} distinct_nontrivial={len(ctx.nontrivial)} '
        f'new_violations={len(new)} known={len(seen_known)} '
        f'exhaustive={not ctx.capped} wall={wall:.1f}s evidence={path}')
  return rc


if __name__ == '__main__':
  sys.exit(main())
