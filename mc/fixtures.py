"""Harness classes with stable serialization keys (importable as mc.fixtures)."""
import pyglove as pg


@pg.members([
    ('x', pg.typing.Any(default=None)),
    ('items', pg.typing.List(pg.typing.Any(), default=[])),
    ('d', pg.typing.Dict(default={})),
])
class Node(pg.Object):
  """Generic tree node: an Any field, a List field and a free-form Dict field."""
  allow_symbolic_assignment = True


@pg.members([
    ('n', pg.typing.Int(min_value=0, max_value=2, default=0)),
    ('s', pg.typing.Str().noneable()),
    ('child', pg.typing.Object(Node).noneable()),
])
class Typed(pg.Object):
  """Object with typed fields."""


class Leaf:
  """A non-symbolic leaf object (compared by identity)."""

  def __init__(self, tag=0):
    self.tag = tag

  def __repr__(self):
    return f'Leaf({self.tag})'

  def __eq__(self, other):
    return isinstance(other, Leaf) and other.tag == self.tag

  def __ne__(self, other):
    return not self.__eq__(other)

  def __hash__(self):
    return hash(('Leaf', self.tag))


@pg.members([
    ('a', pg.typing.Int()),
    ('child', pg.typing.Any(default=None)),
])
class Req(pg.Object):
  """Object with a required field (for partial values)."""
  allow_symbolic_assignment = True


# ---------------------------------------------------------------------------
# C09: observable receivers.  LOG collects (kind, receiver, payload).
# ---------------------------------------------------------------------------
LOG = []
_CB = {}


@pg.members([
    ('x', pg.typing.Any(default=None)),
    ('r', pg.typing.Int()),
    ('n', pg.typing.Int(default=0)),
    ('items', pg.typing.List(pg.typing.Any(), default=[])),
    ('d', pg.typing.Dict(default={})),
])
class Obs(pg.Object):
  """Object that logs its change / bound events and chains to super."""
  allow_symbolic_assignment = True

  def _on_change(self, field_updates):
    LOG.append(('change', self, dict(field_updates)))
    return super()._on_change(field_updates)

  def _on_bound(self):
    super()._on_bound()
    LOG.append(('bound', self, None))


@pg.members([
    ('x', pg.typing.Any(default=None)),
    ('r', pg.typing.Int()),
    ('items', pg.typing.List(pg.typing.Any(), default=[])),
])
class ObsNoSuper(pg.Object):
  """Object that overrides _on_change without chaining to super."""
  allow_symbolic_assignment = True

  def _on_change(self, field_updates):
    LOG.append(('change', self, dict(field_updates)))


def cb_dict(*args, **kwargs):
  cell = []
  d = pg.Dict(*args, onchange_callback=lambda u: LOG.append(('change', cell[0], dict(u))), **kwargs)
  cell.append(d)
  _CB[id(d)] = d
  return d


def cb_list(items):
  cell = []
  l = pg.List(items, onchange_callback=lambda u: LOG.append(('change', cell[0], dict(u))))
  cell.append(l)
  _CB[id(l)] = l
  return l


def is_subscriber(node):
  if isinstance(node, (Obs, ObsNoSuper)):
    return True
  if isinstance(node, (pg.Dict, pg.List)):
    # public: the constructor argument is reported by sym_init_args-like API only
    # for objects; for containers we track the ones the harness built.
    return id(node) in _CB
  return False



@pg.members([('v', pg.typing.Int(default=0))])
class Leafy(pg.Object):
  """An object class unrelated to Node/Typed."""


@pg.members([
    ('x', pg.typing.Any(default=None)),
    ('items', pg.typing.List(pg.typing.Any(), default=[])),
])
class SealedByDefault(pg.Object):
  """A class whose instances are sealed unless explicitly unsealed."""
  allow_symbolic_mutation = False


@pg.members([
    ('x', pg.typing.Any(default=None)),
    ('items', pg.typing.List(pg.typing.Any(), default=[])),
])
class NoAssign(pg.Object):
  """A class with the library default: attribute assignment is off unless enabled per instance."""


# ---------------------------------------------------------------------------
# C06: classes for equality / ordering laws
# ---------------------------------------------------------------------------
@pg.members([('x', pg.typing.Any(default=None))])
class EqA(pg.Object):
  """Plain symbolic class (Python == is identity unless opted in)."""


class EqB(EqA):
  """Subclass with the same fields."""


@pg.members([('y', pg.typing.Any(default=0))])
class EqC(EqA):
  """Subclass with an extra field."""


@pg.members([('x', pg.typing.Any(default=None))])
class EqS(pg.Object):
  """Class opting into symbolic comparison for ==, != and hash()."""
  use_symbolic_comparison = True


class EqT(EqS):
  """Subclass of the opted-in class."""


@pg.members([('x', pg.typing.Any(default=None)), (pg.typing.StrKey(), pg.typing.Any())])
class EqKw(pg.Object):
  """Class with free-form (dynamic) keys: their iteration order is the insertion order."""


@pg.members([('units', pg.typing.Int()), ('act', pg.typing.Str())])
class Layer(pg.Object):
  """C13: element evolved by pg.evolve."""


@pg.members([('layers', pg.typing.List(pg.typing.Object(Layer)))])
class Net(pg.Object):
  """C13: value evolved by pg.evolve."""


# ---------------------------------------------------------------------------
# C20: classes whose documentation / field descriptions are hostile (and a benign twin)
# ---------------------------------------------------------------------------
@pg.members([
    ('x', pg.typing.Any(default=None), 'field </span><b>ZQX1</b> "quoted" & <script>ZQX2</script>'),
    ('y', pg.typing.Any(default=None), "it's --> ]]> </style> ZQX3"),
])
class HObjA(pg.Object):
  """Doc </div></details><script>ZQX4</script> <i>tail</i> & "q" 'a'."""


@pg.members([
    ('x', pg.typing.Any(default=None), 'field XspanXXbXZQX1XXbX XquotedX X XscriptXZQX2XXscriptX'),
    ('y', pg.typing.Any(default=None), 'itXs --X ]]X XXstyleX ZQX3'),
])
class HObjB(pg.Object):
  """Doc XXdivXXXdetailsXXscriptXZQX4XXscriptX XiXtailXXiX X XqX XaX."""
