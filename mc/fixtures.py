"""Harness classes with stable serialization keys (importable as mc.fixtures)."""
import pyglove as pg


@pg.members([
    ('x', pg.typing.Any(default=None)),
    ('items', pg.typing.List(pg.typing.Any(), default=[])),
    ('d', pg.typing.Dict(default={})),
])
class Node(pg.Object):
  """Generic tree node: an Any field, a List field and a free-form Dict field."""
  allow_symbolic_assignment = True


@pg.members([
    ('n', pg.typing.Int(min_value=0, max_value=2, default=0)),
    ('s', pg.typing.Str().noneable()),
    ('child', pg.typing.Object(Node).noneable()),
])
class Typed(pg.Object):
  """Object with typed fields."""


class Leaf:
  """A non-symbolic leaf object (compared by identity)."""

  def __init__(self, tag=0):
    self.tag = tag

  def __repr__(self):
    return f'Leaf({self.tag})'

  def __eq__(self, other):
    return isinstance(other, Leaf) and other.tag == self.tag

  def __ne__(self, other):
    return not self.__eq__(other)

  def __hash__(self):
    return hash(('Leaf', self.tag))


@pg.members([
    ('a', pg.typing.Int()),
    ('child', pg.typing.Any(default=None)),
])
class Req(pg.Object):
  """Object with a required field (for partial values)."""
  allow_symbolic_assignment = True
