"""Maintenance helper (never run by checks): appends an entry to known_findings.json.
usage: python3 -m mc.kf_add fixed C02 <commit> "<what failed>"   |   open C06 <signature> "<what>"
"""
import json, os, sys
P = os.path.join(os.path.dirname(os.path.dirname(os.path.abspath(__file__))), 'known_findings.json')
d = json.load(open(P)) if os.path.exists(P) else {'findings': []}
kind, pid = sys.argv[1], sys.argv[2]
if kind == 'fixed':
  commit, what = sys.argv[3], sys.argv[4]
  d['findings'].append(dict(property=pid, status='fixed', commit=commit, what=what,
                            line=f'fixed: property={pid} {commit} {what}'))
else:
  sig, what = sys.argv[3], sys.argv[4]
  d['findings'].append(dict(property=pid, status='open', signature=sig, what=what))
json.dump(d, open(P, 'w'), indent=1)
open(P, 'a').write('\n')
