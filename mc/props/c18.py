"""C18: symbolized callables keep Python call semantics (E2, differential against the interpreter)."""
from __future__ import annotations

import inspect
import itertools
from typing import Any

import pyglove as pg

_NS = {}


# ---------------------------------------------------------------------------
# signatures
# ---------------------------------------------------------------------------
def signatures(max_params):
  """(n_req, n_def, varargs, kwonly spec, varkw, annotated)."""
  out = []
  for n_req, n_def, va, vk in itertools.product(range(3), range(3), (0, 1), (0, 1)):
    for kwonly in ((), ('r',), ('d',), ('r', 'd'), ('d', 'r')):
      n = n_req + n_def + va + vk + len(kwonly)
      if n > max_params:
        continue
      if kwonly and not va:
        pass          # bare * separator is used
      for ann in (False, True):
        if ann and n == 0:
          continue
        out.append((n_req, n_def, va, kwonly, vk, ann))
  return out


def names_of(sig):
  n_req, n_def, va, kwonly, vk, ann = sig
  pos = [f'a{i}' for i in range(n_req)] + [f'b{i}' for i in range(n_def)]
  kwo = [f'k{i}' for i in range(len(kwonly))]
  return pos, kwo


def source(sig, name, as_class=False):
  n_req, n_def, va, kwonly, vk, ann = sig
  pos, kwo = names_of(sig)
  a = lambda p: f'{p}: int' if ann else p
  params = [a(f'a{i}') for i in range(n_req)] + [f'{a(f"b{i}")}={10 + i}' if not ann else f'b{i}: int = {10 + i}' for i in range(n_def)]
  if va:
    params.append('*args')
  elif kwonly:
    params.append('*')
  for i, kind in enumerate(kwonly):
    params.append(a(f'k{i}') if kind == 'r' else (f'k{i}: int = {20 + i}' if ann else f'k{i}={20 + i}'))
  if vk:
    params.append('**kw')
  items = pos + (['tuple(args)'] if va else []) + kwo + (['dict(kw)'] if vk else [])
  ret = '(' + ', '.join(items) + (',)' if items else ')')
  if as_class:
    return f'class {name}:\n  def __init__(self, {", ".join(params)}):\n    self.v = {ret}\n'
  return f'def {name}({", ".join(params)}):\n  return {ret}\n'


def make(sig, idx, kind):
  """Returns (plain callable, symbolic counterpart factory)."""
  name = f'c18_{kind.replace("-", "_")}_{idx}'
  key = (sig, kind)
  if key in _NS:
    return _NS[key]
  ns = {}
  exec(source(sig, name, as_class=kind in ('symbolize-class', 'wrap-class')), ns)  # pylint: disable=exec-used
  plain = ns[name]
  plain.__module__ = __name__
  if kind == 'functor':
    sym = pg.functor_class(plain, add_to_registry=False)
  elif kind == 'symbolize-fn':
    sym = pg.symbolize(plain)
  elif kind == 'symbolize-class':
    sym = pg.symbolize(plain)
  else:
    sym = pg.wrap(plain)
  _NS[key] = (plain, sym)
  return plain, sym


# ---------------------------------------------------------------------------
# call patterns
# ---------------------------------------------------------------------------
def kw_subsets(names, limit):
  pool = list(names) + ['zz']
  out = [()]
  for n in range(1, limit + 1):
    out += list(itertools.combinations(pool, n))
  return out


def outcome(fn):
  try:
    return ('ok', fn())
  except TypeError:
    return ('exc', 'TypeError')
  except Exception as e:  # pylint: disable=broad-except
    return ('exc', type(e).__name__)


def bind(sig, pos_vals, kw):
  """Which parameters a positional/keyword supply addresses. Returns (named dict, extras list or None, error?)."""
  pos, kwo = names_of(sig)
  n_req, n_def, va, kwonly, vk, ann = sig
  named = {}
  extras = None
  for i, v in enumerate(pos_vals):
    if i < len(pos):
      named[pos[i]] = v
    elif va:
      extras = (extras or []) + [v]
    else:
      return None, None, 'too-many-positionals'
  for k, v in kw.items():
    if k in named:
      return None, None, 'multiple-values'
    if k in pos or k in kwo:
      named[k] = v
    elif vk:
      named[k] = v
    else:
      return None, None, 'unexpected-keyword'
  return named, extras, None


def expected(sig, plain, ctor_pos, ctor_kw, call_pos, call_kw, override, is_class):
  """Outcome of the effective call per the interpreter, or a tag when pyglove-specific rules apply."""
  pos, kwo = names_of(sig)
  n1, e1, err1 = bind(sig, ctor_pos, ctor_kw)
  if err1:
    return ('exc', 'TypeError')
  n2, e2, err2 = bind(sig, call_pos, call_kw)
  if err2:
    return ('exc', 'TypeError')
  conflict = set(n1) & set(n2)
  if conflict and not override:
    return ('exc', 'TypeError')
  named = dict(n1)
  named.update(n2)
  extras = e2 if e2 is not None else e1
  args = []
  kwargs = dict(named)
  if extras is not None:
    # extras can only be expressed when every positional parameter is filled positionally
    for p in pos:
      if p in kwargs:
        args.append(kwargs.pop(p))
      else:
        d = _default(sig, p)
        if d is None:
          return ('exc', 'TypeError')
        args.append(d)
    args += list(extras)
  target = (lambda: plain(*args, **kwargs).v) if is_class else (lambda: plain(*args, **kwargs))
  return outcome(target)


def _default(sig, p):
  if p.startswith('b'):
    return 10 + int(p[1:])
  return None


def sig_item(rec, item):
  sig, idx, tier = item
  pos, kwo = names_of(sig)
  allnames = pos + kwo
  limit = 2 if tier == 'thorough' else 1
  tr0 = dict(kind='sig', sig=list(sig))
  sigclass = f'req{sig[0]}+def{sig[1]}{"+varargs" if sig[2] else ""}{"+kwonly" if sig[3] else ""}{"+varkw" if sig[4] else ""}'
  for kind in ('functor', 'symbolize-fn', 'symbolize-class', 'wrap-class'):
    plain, sym = make(sig, idx, kind)
    is_class = kind.endswith('class')
    # generated signature
    try:
      want = list(inspect.signature(plain.__init__ if is_class else plain).parameters.values())
      got = list(inspect.signature(sym.__init__).parameters.values())
      if is_class:
        want = want[1:]
      got = got[1:]
      if [(p.name, p.kind, p.default) for p in want] != [(p.name, p.kind, p.default) for p in got]:
        rec.viol(f'generated-signature/{kind}/{sigclass}', f'{source(sig, "f").splitlines()[0]}: __init__ signature is '
                 f'{inspect.signature(sym.__init__)}', dict(tr0, how=kind))
    except Exception as e:  # pylint: disable=broad-except
      rec.viol(f'generated-signature-raises/{kind}', f'{type(e).__name__}: {e}', dict(tr0, how=kind))
    ctor_pos_n = range(0, min(4, len(pos) + 2) + 1)
    for npos in ctor_pos_n:
      ctor_pos = [100 + i for i in range(npos)]
      for ks in kw_subsets(allnames, limit + 1 if not is_class else 2):
        ctor_kw = {k: 200 + j for j, k in enumerate(ks)}
        calls = [((), {}, False)]
        if not is_class:
          for cp in range(0, 3):
            for cks in kw_subsets(allnames, limit):
              for ov in (False, True):
                if cp == 0 and not cks and ov:
                  continue
                calls.append((tuple(300 + i for i in range(cp)), {k: 400 + j for j, k in enumerate(cks)}, ov))
        for call_pos, call_kw, ov in calls:
          rec.evals += 1
          tr = dict(tr0, how=kind, ctor_pos=ctor_pos, ctor_kw=ctor_kw, call_pos=list(call_pos), call_kw=call_kw, override=ov)
          want = expected(sig, plain, ctor_pos, ctor_kw, list(call_pos), call_kw, ov, is_class)
          if is_class:
            got = outcome(lambda: sym(*ctor_pos, **ctor_kw).v)
          else:
            def run_functor():
              f = sym(*ctor_pos, **ctor_kw)
              if ov:
                return f(*call_pos, override_args=True, **call_kw)
              return f(*call_pos, **call_kw)
            got = outcome(run_functor)
          if got != want and not ov and not is_class:
            # variadic positionals supplied both at construction and at call: refusing (TypeError) and replacing are both accepted
            n1, e1, err1 = bind(sig, ctor_pos, ctor_kw)
            n2, e2, err2 = bind(sig, list(call_pos), call_kw)
            if not err1 and not err2 and e1 is not None and e2 is not None and got == ('exc', 'TypeError'):
              continue
          if got != want:
            n1, e1, err1 = bind(sig, ctor_pos, ctor_kw)
            n2, e2, err2 = bind(sig, list(call_pos), call_kw)
            cls = 'conflict' if (not err1 and not err2 and (set(n1) & set(n2))) else \
                (err1 or err2 or 'plain')
            rec.viol(f'call-outcome/{kind}/{cls}/{_o(want)}->{_o(got)}',
                     f'{source(sig, "f").splitlines()[0]} bound with {ctor_pos}, {ctor_kw} then called with {list(call_pos)}, '
                     f'{call_kw} (override={ov}): interpreter gives {want!r}, symbolic gives {got!r}', tr)
            continue
          if got[0] == 'ok':
            rec.nt((sig, kind, npos, ks, call_pos, tuple(call_kw), ov))
          # reported arguments, clone and JSON describe the effective arguments (construction-time binding only)
          if got[0] == 'ok' and not call_pos and not call_kw:
            try:
              obj = sym(*ctor_pos, **ctor_kw)
              n1, e1, _ = bind(sig, ctor_pos, ctor_kw)
              init = dict(obj.sym_init_args.sym_items()) if hasattr(obj.sym_init_args, 'sym_items') else dict(obj.sym_init_args)
              init = {k: (list(v) if isinstance(v, list) else v) for k, v in init.items()}
              exp = {}
              for p in pos:
                exp[p] = n1.get(p, _default(sig, p))
              if sig[2]:
                exp['args'] = list(e1 or [])
              for i, p in enumerate(kwo):
                exp[p] = n1.get(p, 20 + i if sig[3][i] == 'd' else None)
              for k, v in n1.items():
                if k not in exp:
                  exp[k] = v
              if init != exp:
                rec.viol(f'sym_init_args/{kind}/{sigclass}', f'bound with {ctor_pos}, {ctor_kw}: sym_init_args = {init!r}, effective '
                         f'bindings are {exp!r}', tr)
              c = obj.clone(deep=True)
              again = outcome(lambda: c.v) if is_class else outcome(lambda: c())
              if again != want:
                rec.viol(f'clone-differs/{kind}/{sigclass}', f'clone then call gives {again!r}, expected {want!r}', tr)
            except Exception as e:  # pylint: disable=broad-except
              rec.viol(f'reporting-raises:{type(e).__name__}/{kind}', f'{e}', tr)
  rec.trans += 1


def _o(r):
  return 'ok' if r[0] == 'ok' else r[1]


# JSON round trip needs importable, registered classes: a fixed set at module level
def jf1(a0, b0=10, *args, k0, k1=21, **kw):
  return (a0, b0, tuple(args), k0, k1, dict(kw))


def jf2(a0, a1, b0=10):
  return (a0, a1, b0)


JF1 = pg.functor_class(jf1, add_to_registry=True)
JF2 = pg.functor_class(jf2, add_to_registry=True)


class SubApply(pg.Functor):
  """Subclassed functor: calls `fn` on `x`."""
  fn: Any
  x: Any

  def _call(self):
    return self.fn(self.x)


class SubShift(pg.Functor):
  """Subclassed functor whose body runs another subclassed functor and reads its own arguments meanwhile."""
  x: int
  y: int = 100

  def _call(self):
    return SubApply()(lambda v: (v, self.x, self.y), 5)


class SubOther(pg.Functor):
  """Same, with argument names that do not clash with SubApply."""
  a: int
  b: int = 100

  def _call(self):
    inner = SubShift(1)
    return (self.a, self.b, inner(y=2), self.a, self.b)


class SubFact(pg.Functor):
  """A subclassed functor that calls ITSELF (the same instance) with new call-time arguments."""
  n: int
  acc: int = 1

  def _call(self):
    if self.n <= 1:
      return (self.acc, self.n)
    inner = self(self.n - 1, self.acc * self.n, override_args=True)
    # after the inner call returns, this activation still sees its own arguments
    return inner + (self.n, self.acc)


def _py_fact(n, acc=1):
  if n <= 1:
    return (acc, n)
  return _py_fact(n - 1, acc * n) + (n, acc)


def nested_item(rec, _):
  """Call-time arguments of nested subclassed functors (the plain Python equivalent is the oracle)."""
  tr = dict(kind='nested')
  def py_shift(x, y=100):
    return (5, x, y)
  def py_other(a, b=100):
    return (a, b, py_shift(1, y=2), a, b)
  cases = []
  for x in (3,):
    cases += [('SubShift()(x)', lambda: SubShift()(x), py_shift(x)),
              ('SubShift()(x=, y=)', lambda: SubShift()(x=x, y=1), py_shift(x, 1)),
              ('SubShift(1)(x, override)', lambda: SubShift(1)(x, override_args=True), py_shift(x)),
              ('SubShift(x, 7)(y=1, override)', lambda: SubShift(x, 7)(y=1, override_args=True), py_shift(x, 1)),
              ('SubShift(x)()', lambda: SubShift(x)(), py_shift(x)),
              ('SubFact()(3)', lambda: SubFact()(3), _py_fact(3)),
              ('SubFact(4)()', lambda: SubFact(4)(), _py_fact(4)),
              ('SubFact(2, 5)(3, override)', lambda: SubFact(2, 5)(3, override_args=True), _py_fact(3, 5)),
              ('SubOther()(a)', lambda: SubOther()(4), py_other(4)),
              ('SubOther(4)(b=6)', lambda: SubOther(4)(b=6), py_other(4, 6)),
              ('SubOther(4, 5)(9, override)', lambda: SubOther(4, 5)(9, override_args=True), py_other(9, 5))]
  for label, fn, want in cases:
    rec.evals += 1
    got = outcome(fn)
    if got != ('ok', want):
      rec.viol('nested-subclassed-functors', f'{label}: plain Python gives {want!r}, functors give {got!r}', dict(tr, case=label))
    else:
      rec.nt(label)
  rec.trans += 1


def json_item(rec, _):
  tr = dict(kind='json')
  cases = [(JF1, jf1, (1,), dict(k0=2)), (JF1, jf1, (1, 2, 3, 4), dict(k0=5, zz=6)), (JF1, jf1, (), dict(a0=1, k0=2, k1=3)),
           (JF2, jf2, (1, 2), {}), (JF2, jf2, (1,), dict(a1=5, b0=6)), (JF2, jf2, (), dict(a0=1, a1=2))]
  for F, f, a, k in cases:
    rec.evals += 1
    obj = F(*a, **k)
    want = f(*a, **k)
    for how, mk in (('to_json', lambda: pg.from_json(pg.to_json(obj))), ('to_json_str', lambda: pg.from_json_str(pg.to_json_str(obj))),
                    ('clone', lambda: obj.clone(deep=True))):
      try:
        o2 = mk()
        if o2() != want or not pg.eq(o2, obj):
          rec.viol(f'roundtrip-call-differs/{how}', f'{f.__name__}{a}{k}: {how} then call gives {o2()!r}, expected {want!r}', tr)
      except Exception as e:  # pylint: disable=broad-except
        rec.viol(f'roundtrip-raises:{type(e).__name__}/{how}', f'{f.__name__}{a}{k}: {e}', tr)
    # partial binding survives the round trip
    p = JF2.partial(1) if F is JF2 else JF1.partial(k0=9)
    q = pg.from_json(pg.to_json(p))
    late = (2,) if F is JF2 else (1,)
    la = outcome(lambda: p(*late)) if F is JF1 else outcome(lambda: p(a1=2))
    lb = outcome(lambda: q(*late)) if F is JF1 else outcome(lambda: q(a1=2))
    if la != lb:
      rec.viol('roundtrip-partial-differs', f'{f.__name__}: partial functor after JSON gives {lb!r}, before {la!r}', tr)
  # two instances of one functor class do not share argument bookkeeping
  x = JF2(1, 2)
  y = x.clone(deep=True)
  y.rebind(b0=99)
  if x() != (1, 2, 10) or y() != (1, 2, 99):
    rec.viol('clone-shares-argument-state', f'after rebinding the clone: original {x()!r}, clone {y()!r}', tr)
  # a partially bound functor and its clone keep separate records of what is bound
  for mk_copy in (lambda o: o.clone(deep=True), lambda o: o.clone(deep=False), lambda o: pg.from_json(pg.to_json(o))):
    x = JF2.partial(1)
    y = mk_copy(x)
    y.rebind(a1=5)
    ox, oy = outcome(lambda: x()), outcome(lambda: y())
    if oy != ('ok', (1, 5, 10)) or ox != ('exc', 'TypeError') or outcome(lambda: x(a1=7)) != ('ok', (1, 7, 10)):
      rec.viol('clone-shares-argument-state', f'partial functor x, copy y, y.rebind(a1=5): x() gives {ox!r} (TypeError expected), '
               f'y() gives {oy!r}, x(a1=7) gives {outcome(lambda: x(a1=7))!r}', tr)
  rec.trans += 1
  rec.nt('json')


# ---------------------------------------------------------------------------
# binding histories: a functor is a mutable partial application
# ---------------------------------------------------------------------------
def _hist_plain(a, b=1, c=None):
  return (a, b, None if c is None else c['p'])


@pg.functor()
def HistF(a, b=1, c=None):
  return (a, b, None if c is None else c['p'])


HIST_STARTS = {
    'F()': (lambda: HistF(), {}),
    'F(1)': (lambda: HistF(1), dict(a=1)),
    'F(1,c={p:1})': (lambda: HistF(1, c=pg.Dict(p=1)), dict(a=1, c={'p': 1})),
    'F(1,2,{p:1})': (lambda: HistF(1, 2, pg.Dict(p=1)), dict(a=1, b=2, c={'p': 1})),
    'F(b=1)': (lambda: HistF(b=1), dict(b=1)),
}


HIST_DEFAULTS = dict(b=1, c=None)


def hist_ops(bound):
  """Writing the value an argument already has is a no-op for the library (it does not make the argument 'bound'), and
  rebinding a defaulted argument to MISSING_VALUE resets it without un-binding it; neither is generated. `del` un-binds."""
  ops = []
  effective = lambda n: bound.get(n, HIST_DEFAULTS.get(n, '<unbound>'))
  for name, vals in (('a', (1, 2)), ('b', (1, 9))):
    for v in vals:
      if v != effective(name):
        ops.append(('set', name, v))
  if effective('c') != {'p': 1}:
    ops.append(('set', 'c', 'dict'))
  if 'a' in bound:
    ops.append(('unset', 'a'))
  for name in ('a', 'b', 'c'):
    if name in bound:
      ops.append(('del', name))
  if isinstance(bound.get('c'), dict):
    for v in (5, 6):
      if bound['c'] == {'p': v}:
        continue
      ops.append(('nested', v))
      for name, tv in (('a', 7), ('b', 9), ('b', 1)):
        if tv != effective(name):
          ops.append(('batch', v, name, tv, 'nested-first'))
          ops.append(('batch', v, name, tv, 'top-first'))
      if 'a' in bound:
        ops.append(('batch', v, 'a', 'MISSING', 'nested-first'))
      break
  return ops


def hist_apply(f, bound, op):
  """Applies op to the functor and to the model (dict of explicitly bound arguments)."""
  k = op[0]
  if k == 'set':
    v = pg.Dict(p=1) if op[2] == 'dict' else op[2]
    f.rebind({op[1]: v})
    bound[op[1]] = {'p': 1} if op[2] == 'dict' else op[2]
  elif k == 'unset':
    f.rebind({op[1]: pg.MISSING_VALUE})
    bound.pop(op[1])
  elif k == 'del':
    delattr(f, op[1])
    bound.pop(op[1])
  elif k == 'nested':
    f.rebind({'c.p': op[1]})
    bound['c'] = {'p': op[1]}
  elif k == 'batch':
    _, v, name, tv, order = op
    pairs = [('c.p', v), (name, pg.MISSING_VALUE if tv == 'MISSING' else tv)]
    if order == 'top-first':
      pairs.reverse()
    f.rebind(dict(pairs))
    bound['c'] = {'p': v}
    if tv == 'MISSING':
      bound.pop(name)
    else:
      bound[name] = tv


def hist_observe(f):
  def unchecked(fn):
    with pg.enable_type_check(False):      # switching validation off must not change which calls are well formed
      return outcome(fn)
  return dict(
      call=outcome(lambda: f()),
      call_b=outcome(lambda: f(b=7)),
      call_pos=outcome(lambda: f(5)),
      call_override=outcome(lambda: f(b=7, override_args=True)),
      call_b_unchecked=unchecked(lambda: f(b=7)),
      call_pos_unchecked=unchecked(lambda: f(5)),
      call_override_unchecked=unchecked(lambda: f(b=7, override_args=True)),
      specified=sorted(f.specified_args),
  )


def hist_model(bound):
  def call(extra_pos=(), extra_kw=None, override=False):
    kw = dict(bound)
    extra_kw = extra_kw or {}
    if extra_pos:
      if 'a' in kw and not override:
        return ('exc', 'TypeError')
      kw['a'] = extra_pos[0]
    for k2, v2 in extra_kw.items():
      if k2 in kw and not override:
        return ('exc', 'TypeError')
      kw[k2] = v2
    return outcome(lambda: _hist_plain(**kw))
  return dict(call=call(), call_b=call(extra_kw=dict(b=7)), call_pos=call(extra_pos=(5,)),
              call_override=call(extra_kw=dict(b=7), override=True),
              call_b_unchecked=call(extra_kw=dict(b=7)), call_pos_unchecked=call(extra_pos=(5,)),
              call_override_unchecked=call(extra_kw=dict(b=7), override=True), specified=sorted(bound))


def hist_item(rec, item):
  """All histories of (re)binding, unbinding, deleting and batched nested + top-level rebinds up to the depth; after every
  step the functor is called in four ways and compared with the interpreter calling the plain function with the bound arguments."""
  start, depth = item
  mk, bound0 = HIST_STARTS[start]

  def explore(hist):
    f = mk()
    bound = {k: (dict(v) if isinstance(v, dict) else v) for k, v in bound0.items()}
    try:
      for op in hist:
        hist_apply(f, bound, op)
    except Exception as e:  # pylint: disable=broad-except
      rec.viol(f'history-op-raises:{type(e).__name__}/{hist[-1][0]}', f'{start} then {hist!r}: {e}', dict(kind='hist', start=start, hist=[list(o) for o in hist]))
      return
    rec.evals += 1
    rec.trans += 1
    got, want = hist_observe(f), hist_model(bound)
    tr = dict(kind='hist', start=start, hist=[list(o) for o in hist])
    bad = [k for k in want if got[k] != want[k]]
    if not bad:
      # copies behave like the original
      for how, cp in (('clone', lambda: f.clone(deep=True)), ('json', lambda: pg.from_json(pg.to_json(f)))):
        try:
          g = hist_observe(cp())
          if how == 'json':
            g.pop('specified'), g.pop('call_b'), g.pop('call_b_unchecked')       # what counts as explicitly bound is not part of the JSON form
          diff = [k for k in g if g[k] != want[k]]
          if diff:
            rec.viol(f'history-copy-differs/{how}/{diff[0]}', f'{start} then {hist!r}: {how} gives {diff[0]}={g[diff[0]]!r}, expected {want[diff[0]]!r}', tr)
            bad = diff
        except Exception as e:  # pylint: disable=broad-except
          rec.viol(f'history-copy-raises:{type(e).__name__}/{how}', f'{start} then {hist!r}: {e}', tr)
          bad = ['copy']
    else:
      last = hist[-1][0] if hist else 'construct'
      rec.viol(f'history-call-differs/{last}/{bad[0]}', f'{start} then {hist!r}: bound arguments per model {bound!r}; '
               f'{bad[0]}: functor gives {got[bad[0]]!r}, plain Python {want[bad[0]]!r}', tr)
    if bad:
      return
    rec.nt((start, tuple(hist)))
    if len(hist) < depth:
      for op in hist_ops(bound):
        explore(hist + [op])

  explore([])


def run(ctx):
  ctx.pmap(hist_item, [(s, 3 if ctx.thorough else 2) for s in HIST_STARTS], chunk=1)
  ctx.rule = ('every signature with at most N parameters built from required / defaulted positionals, *args, keyword-only with '
              'and without default, **kwargs, with and without annotations, as plain function (pg.functor_class, pg.symbolize) '
              'and as class (pg.symbolize, pg.wrap) x every call pattern: 0..4 construction-time positionals x keyword subsets '
              '(parameter names + one unknown name) x 0..2 call-time positionals x keyword subsets x override flag; the final '
              'outcome of construct-then-call is compared with the interpreter calling the original with the effective '
              'arguments; generated __init__ signature, sym_init_args, clone and JSON round trips; all binding histories (set / '
              'unset / delete / nested and batched rebinds) up to depth 2 (3 thorough) on 5 partial applications, four call forms '
              'after every step; distinct_nontrivial = '
              'patterns that returned a value equal to the interpreter\'s')
  sigs = signatures(5 if ctx.thorough else 4)
  ctx.pmap(sig_item, [(s, i, ctx.tier) for i, s in enumerate(sigs)], chunk=1)
  ctx.pmap(json_item, [0], chunk=1)
  ctx.pmap(nested_item, [0], chunk=1)
  ctx.states += len(sigs) * 4
  ctx.note('signatures', len(sigs))
  ctx.sample(dict(signature=source(sigs[len(sigs) // 2], 'f').splitlines()[0], ctor=[[100], {'k0': 200}], call=[[300], {}], override=True))
  ctx.assumptions += ['a value supplied at call time for an argument already bound at construction requires override_args=True; '
                      'without it TypeError is expected (pyglove-specific rule stated in the property)',
                      'binding errors may surface at construction or at call: only the final outcome is compared']


def replay(rec, data):
  if data.get('kind') == 'json':
    return json_item(rec, 0)
  if data.get('kind') == 'nested':
    return nested_item(rec, 0)
  if data.get('kind') == 'hist':
    return hist_item(rec, (data['start'], 3))
  sig = data['sig']
  sig = (sig[0], sig[1], sig[2], tuple(sig[3]), sig[4], sig[5])
  sig_item(rec, (sig, 9999, 'thorough'))
