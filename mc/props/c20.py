"""C20: HTML views are well-formed and never let data break out of its text position (E2, differential skeleton)."""
from __future__ import annotations

import html as html_lib
import html.parser
import itertools

import pyglove as pg

from mc import fixtures as fx

VOID = {'area', 'base', 'br', 'col', 'embed', 'hr', 'img', 'input', 'link', 'meta', 'source', 'track', 'wbr'}
HOSTILE = ['<i>ZQX', '</span>ZQX', 'ZQX"q', "ZQX'q", 'a&bZQX', '<script>alert("ZQX")</script>', 'ZQX-->', 'ZQX]]>', '</style>ZQX',
           'ZQX\nline', '&amp;lt;b&gt;<img src=x onerror=ZQX>', '</details></div>ZQX', '<b onmouseover="ZQX">', 'plainZQX',
           '&#60;u&#62;ZQX<u>']
META = '<>&"\''


def twin_str(s):
  """Same length, same newlines, metacharacters replaced by letters."""
  return ''.join('X' if c in META else c for c in s)


class Strict(html.parser.HTMLParser):
  """Strict tokenizer: no recovery; records the skeleton, the text and raw script/style contents."""

  def __init__(self):
    super().__init__(convert_charrefs=True)
    self.stack = []
    self.errors = []
    self.skeleton = []
    self.text = []
    self.attr_values = []
    self.raw_blocks = []

  def handle_starttag(self, tag, attrs):
    self.skeleton.append((tag, tuple(sorted(k for k, _ in attrs))))
    self.attr_values += [v for _, v in attrs if v is not None]
    if tag not in VOID:
      self.stack.append(tag)

  def handle_startendtag(self, tag, attrs):
    self.skeleton.append((tag, tuple(sorted(k for k, _ in attrs))))
    self.attr_values += [v for _, v in attrs if v is not None]

  def handle_endtag(self, tag):
    if tag in VOID:
      return
    if not self.stack:
      self.errors.append(f'closing </{tag}> with nothing open')
    elif self.stack[-1] != tag:
      self.errors.append(f'closing </{tag}> while <{self.stack[-1]}> is open')
      if tag in self.stack:
        while self.stack and self.stack[-1] != tag:
          self.stack.pop()
        self.stack.pop()
    else:
      self.stack.pop()

  def handle_data(self, data):
    if self.stack and self.stack[-1] in ('script', 'style'):
      self.raw_blocks.append(data)
    else:
      self.text.append(data)

  def handle_comment(self, data):
    self.skeleton.append(('!comment', ()))
    self.raw_blocks.append(data)


def parse(doc):
  p = Strict()
  p.feed(doc)
  p.close()
  if p.stack:
    p.errors.append(f'unclosed elements at end of document: {p.stack}')
  return p


# ---------------------------------------------------------------------------
# values: shape x hostile string, plus the twin
# ---------------------------------------------------------------------------
SHAPES = ('dict-key', 'dict-leaf', 'list-leaf', 'nested-key', 'obj-field', 'obj-in-list', 'long-leaf', 'key-and-leaf',
          'dict-int-key', 'class-name', 'diff')

_NAMED = {}


def named_class(name):
  """A symbolic class whose NAME is the given string (class and field names are user data too, e.g. '<lambda>')."""
  if name not in _NAMED:
    cls = type(name, (pg.Object,), {'__module__': 'hostile', 'auto_register': False})
    _NAMED[name] = pg.members([('x', pg.typing.Any(default=None))])(cls)
  return _NAMED[name]



def build(shape, h, twin):
  s = twin_str(h) if twin else h
  cls = fx.HObjB if twin else fx.HObjA
  if shape == 'dict-key':
    return pg.Dict({s: 1, 'b': 2})
  if shape == 'dict-leaf':
    return pg.Dict(a=s, b=pg.Dict(c=s))
  if shape == 'list-leaf':
    return pg.List([s, [s, 1]])
  if shape == 'nested-key':
    return pg.Dict(a=pg.Dict({s: pg.List([1])}), b=[{s: s}])
  if shape == 'obj-field':
    return cls(x=s, y=pg.Dict({s: 1}))
  if shape == 'obj-in-list':
    return pg.List([cls(x=[s]), cls(y=s)])
  if shape == 'long-leaf':
    return pg.Dict(a=s * 12, b=s)
  if shape == 'key-and-leaf':
    return pg.Dict({s: s, 'z' + s: pg.Dict({s + 'k': s})})
  if shape == 'dict-int-key':
    return pg.Dict({1: s, 2: pg.Dict({3: s})})
  if shape == 'class-name':
    c = named_class(s)
    return pg.Dict(a=c(x=1), b=[c(x=c(x=2))])
  if shape == 'diff':
    # the result of pg.diff is a symbolic value too; its keys and both sides are user data
    return pg.diff(pg.Dict({s: 1, 'z': pg.Dict({s: s, 'k': 1})}), pg.Dict({s: 2, 'z': pg.Dict({s: s + 'x', 'k': 1})}))
  raise ValueError(shape)


def data_strings(shape, h):
  """(keys, leaves) that must be present in the rendering."""
  keys, leaves = [], []
  v = build(shape, h, False)

  def rec(x):
    if isinstance(x, pg.Object):
      for k, c in x.sym_items():
        rec(c)
    elif isinstance(x, dict):
      for k, c in x.items():
        if isinstance(k, str):
          keys.append(k)
        rec(c)
    elif isinstance(x, list):
      for c in x:
        rec(c)
    elif isinstance(x, str):
      leaves.append(x)
  rec(v)
  return keys, leaves


OPTION_DOMAINS = dict(
    collapse_level=(None, 0, 1),
    enable_summary_tooltip=(True, False),
    enable_key_tooltip=(True, False),
    key_style=('summary', 'label'),
    enable_summary=(None, True, False),
    enable_summary_for_str=(True, False),
    max_summary_len_for_str=(80, 6),
    keys=('all', 'exclude-b', 'include-a', 'fn-include-all', 'fn-exclude-none', 'fn-by-last-key'),
    uncollapse=(None, 'a'),
    debug=(False, True),
)


def option_sets(thorough):
  names = list(OPTION_DOMAINS)
  if thorough:
    full = [dict(zip(names, combo)) for combo in itertools.product(*OPTION_DOMAINS.values())]
    return full[::5]          # every 5th combination of the full product (13824): ~2765, all pairs of option values occur
  # pairwise-style covering: defaults, each single deviation, and rotating combinations
  out = [dict((n, OPTION_DOMAINS[n][0]) for n in names)]
  for n in names:
    for v in OPTION_DOMAINS[n][1:]:
      o = dict(out[0])
      o[n] = v
      out.append(o)
  full = [dict(zip(names, combo)) for combo in itertools.product(*OPTION_DOMAINS.values())]
  out += full[7::113]          # 61 combinations spread over the full product
  return out


def kwargs_of(opts):
  kw = {k: v for k, v in opts.items() if k not in ('keys',)}
  if opts['keys'] == 'exclude-b':
    kw['exclude_keys'] = ['b']
  elif opts['keys'] == 'include-a':
    kw['include_keys'] = ['a']
  elif opts['keys'] == 'fn-include-all':
    kw['include_keys'] = lambda k, v, p: True
  elif opts['keys'] == 'fn-exclude-none':
    kw['exclude_keys'] = lambda k, v, p: False
  elif opts['keys'] == 'fn-by-last-key':
    # keeps exactly the children whose own key (the last key of the path handed to the filter) is a key of its parent
    def keep(k, v, p):
      last = k.key
      if isinstance(p, dict):
        return last in p
      if isinstance(p, (list, tuple)):
        return isinstance(last, int) and 0 <= last < len(p)
      if isinstance(p, pg.Object):
        return p.sym_hasattr(last)
      return True
    kw['include_keys'] = keep
  if kw.get('uncollapse') is None:
    kw.pop('uncollapse')
  else:
    kw['uncollapse'] = [kw['uncollapse']]
  return kw


def render_item(rec, item):
  shape, hs, optsets = item
  for h in hs:
    keys, leaves = data_strings(shape, h)
    for opts in optsets:
      rec.evals += 1
      tr = dict(kind='render', shape=shape, hostile=h, options=opts)
      kw = kwargs_of(opts)
      v = build(shape, h, False)
      t = build(shape, h, True)
      before = repr(pg.to_json(v))
      try:
        doc = pg.to_html_str(v, **kw)
        tdoc = pg.to_html_str(t, **kw)
      except Exception as e:  # pylint: disable=broad-except
        rec.viol(f'render-raises:{type(e).__name__}/{shape}', f'{h!r} with {opts}: {e}', tr)
        continue
      if repr(pg.to_json(v)) != before:
        rec.viol(f'value-modified-by-rendering/{shape}', f'{h!r} with {opts}', tr)
      p, q = parse(doc), parse(tdoc)
      pos = shape
      if opts['keys'].startswith('fn-') and not opts['debug']:       # (the debug dump prints the options, incl. the filter object)
        # a filter function that keeps every child must give the very document rendered without a filter
        try:
          plain_doc = pg.to_html_str(build(shape, h, False), **{k: x for k, x in kw.items() if k not in ('include_keys', 'exclude_keys')})
          if plain_doc != doc:
            rec.viol(f'keep-all-filter-changes-document/{opts["keys"]}/{pos}', f'{h!r} in {shape} with {opts}: {len(doc)} vs {len(plain_doc)} chars', tr)
        except Exception as e:  # pylint: disable=broad-except
          rec.viol(f'render-raises:{type(e).__name__}/{shape}', f'{h!r} with {opts}: {e}', tr)
      bad = False
      if p.errors:
        rec.viol(f'malformed-document/{pos}', f'{h!r} in {shape} with {opts}: {p.errors[:2]}', tr); bad = True
      if q.errors:
        rec.viol(f'malformed-document-benign-twin/{pos}', f'{twin_str(h)!r}: {q.errors[:2]}', tr); bad = True
      if p.skeleton != q.skeleton:
        extra = [x for x in p.skeleton if x not in q.skeleton][:3]
        rec.viol(f'data-changes-markup/{pos}', f'{h!r} in {shape} with {opts}: the element/attribute skeleton differs from the '
                 f'twin whose metacharacters are letters ({len(p.skeleton)} vs {len(q.skeleton)} elements); e.g. {extra}', tr); bad = True
      for blk in p.raw_blocks:
        if 'ZQX' in blk:
          rec.viol(f'data-inside-script-or-style/{pos}', f'{h!r}: user data appears inside a script/style/comment block', tr); bad = True
          break
      # presence of keys and leaves (unless an option hides them)
      text = '\n'.join(p.text) + '\n' + '\n'.join(p.attr_values)
      hidden = opts['keys'] in ('exclude-b', 'include-a')
      keys_hidden = opts['key_style'] == 'summary' and (opts['enable_summary'] is False or opts['enable_summary_for_str'] is False)     # keys live in the summaries
      if not hidden:
        for k in ([] if keys_hidden else keys):
          if k not in text:
            rec.viol(f'key-missing/{pos}', f'key {k!r} of {shape} is not present in the rendered text ({opts})', tr); bad = True
            break
        for l in leaves:
          cands = {l, repr(l)[1:-1], l.replace('\n', '\\n')}
          if not any(c in text for c in cands):
            rec.viol(f'leaf-missing/{pos}', f'leaf {l[:40]!r} of {shape} is not present in the rendered text ({opts})', tr); bad = True
            break
      if not bad:
        rec.nt((shape, h, repr(sorted(opts.items()))))
    rec.trans += len(optsets)


def sequence_item(rec, _):
  """Rendering is free of side effects on later renderings (also when a rendering fails)."""
  tr = dict(kind='sequence')
  v = pg.Dict(a='x<y>ZQX', b=pg.Dict(id=1, c='<i>'))
  base = pg.to_html_str(v)
  def boom(*a, **k):
    raise RuntimeError('user callback failed')
  attempts = [dict(exclude_keys=['b'], enable_summary_tooltip=False), dict(collapse_level=0, key_style='label')]
  for kw in attempts:
    rec.evals += 1
    try:
      pg.to_html_str(v, **kw)
    except Exception:  # pylint: disable=broad-except
      pass
    try:
      with pg.view_options(**kw):
        raise KeyError('leaving the scope by exception')
    except KeyError:
      pass
    try:
      pg.to_html_str(v, highlight=boom, **kw)
    except Exception:  # pylint: disable=broad-except
      pass
    try:
      after = pg.to_html_str(v)
    except Exception as e:  # pylint: disable=broad-except
      after = f'<raises {type(e).__name__}: {e}>'
    if after != base:
      rec.viol('rendering-depends-on-earlier-rendering', f'after rendering with {kw} (and a failing rendering) a plain rendering '
               f'differs from the first one ({len(base)} vs {len(after)} chars)', tr)
  rec.trans += 1
  rec.nt('sequence')


def run(ctx):
  ctx.rule = ('every value shape (9: hostile data as dict key, leaf, nested key, object field, inside lists, long strings, int '
              'keys) x hostile string (15: tags, closing tags, quotes, ampersands, entities, script, comment / CDATA / style '
              'terminators, newlines, event-handler attributes) x option combination (thorough: every 5th of the full product of 10 tree-view '
              'options = 13824; quick: defaults, every single deviation and 12 rotating combinations): strict tokenizer finds a '
              'properly nested document; element/attribute skeleton equals that of the twin value whose metacharacters are '
              'letters; no data inside script/style/comment; every key and leaf present; value unchanged; '
              'distinct_nontrivial = passing (shape, string, options) renderings')
  optsets = option_sets(ctx.thorough)
  hs = HOSTILE
  items = []
  for shape in SHAPES:
    for i in range(0, len(hs), 3):
      if ctx.thorough:
        for j in range(0, len(optsets), 864):
          items.append((shape, hs[i:i + 3], optsets[j:j + 864]))
      else:
        items.append((shape, hs[i:i + 3], optsets))
  ctx.pmap(render_item, items, chunk=1)
  ctx.pmap(sequence_item, [0], chunk=1)
  ctx.states += len(SHAPES) * len(hs)
  ctx.note('option_combinations', len(optsets))
  ctx.note('renderings', len(SHAPES) * len(hs) * len(optsets) * 2)
  ctx.sample(dict(shape='nested-key', hostile=HOSTILE[5], options=optsets[min(3, len(optsets) - 1)]))
  ctx.assumptions += ['the html.parser tokenizer with explicit nesting checks stands for a strict HTML parser',
                      'class documentation / field descriptions are compared through a benign twin class of the same shape']


def replay(rec, data):
  render_item(rec, (data['shape'], [data['hostile']], [data['options']])) if data.get('kind') == 'render' else sequence_item(rec, 0)
