"""C03: a typed symbolic value always satisfies its declared schema (E2 x E1)."""
from __future__ import annotations

import contextlib
import copy

import pyglove as pg

from mc import specs as S
from mc import statespace

T = pg.typing
MISSING = pg.MISSING_VALUE
REJ = (TypeError, ValueError, KeyError)
G_FIELD = ('default', ('int', None, None), 0)

_CLS = {}


def obj_class(d):
  """A pg.Object subclass with field f: d and g: Int(default=0) (one per descriptor)."""
  key = repr(d)
  if key not in _CLS:
    name = f'C03Obj{len(_CLS)}'
    cls = type(name, (pg.Object,), {'allow_symbolic_assignment': True, '__module__': __name__,
                                     '__serialization_key__': f'mc.c03.{name}.{abs(hash(key))}'})
    cls = pg.members([('f', S.mk(d)), ('g', S.mk(G_FIELD))])(cls)
    _CLS[key] = cls
  return _CLS[key]


def container_desc(kind, d, lo=0, hi=None):
  if kind == 'list':
    return ('list', d, lo, hi)
  return ('dict', (('f', d), ('g', G_FIELD)))


def view(v):
  """Plain view of a stored value for the independent acceptor."""
  if isinstance(v, pg.Object) and type(v).__module__ == __name__:
    return {k: view(e) for k, e in v.sym_items()}
  if isinstance(v, pg.Dict):
    return {k: view(e) for k, e in v.sym_items()}
  if isinstance(v, pg.List):
    return [view(e) for e in v.sym_values()]
  if isinstance(v, tuple):
    return tuple(view(e) for e in v)
  return v


class SchemaSpace(statespace.Space):
  name = 'schema'
  reps_per_state = 1
  divergence_is_violation = True

  def __init__(self, inits, nested=True):
    self.inits = inits
    self.nested = nested

  def initials(self):
    return list(self.inits)

  # init = (kind, desc, lo, hi, start)   start in {'full', 'partial'}
  def build(self, init):
    kind, d, lo, hi, start = init
    good = S.first_good(d)
    partial_ok = start == 'partial'
    if kind == 'dict':
      spec = S.mk(container_desc('dict', d))
      if start == 'partial' or good is None:
        x = pg.Dict(value_spec=spec, allow_partial=True)
        partial_ok = True
      else:
        x = pg.Dict(value_spec=spec, f=S.val(good))
    elif kind == 'list':
      spec = T.List(S.mk(d), min_size=lo, max_size=hi)
      items = [S.val(good) for _ in range(max(lo, 1))] if good is not None else []
      x = pg.List(items, value_spec=spec, allow_partial=partial_ok)
    else:
      cls = obj_class(d)
      if start == 'partial' or good is None:
        x = cls.partial()
        partial_ok = True
      else:
        x = cls(f=S.val(good))
    return dict(x=x, init=init, partial_ok=partial_ok, cdesc=container_desc(kind, d, lo, hi))

  def canon(self, w):
    x = w['x']
    return (repr(w['init']), repr(view(x)), w['partial_ok'], getattr(x, 'allow_partial', None))

  def ops(self, w):
    kind, d, lo, hi, _ = w['init']
    x = w['x']
    toks = S.pool(d)
    ops = []
    scopes = ('', 'partial', 'nopartial')
    if kind in ('dict', 'obj'):
      for t in toks:
        for sc in scopes:
          ops.append((sc, 'setattr', 'f', t))
          ops.append((sc, 'rebind', 'f', t))
        if kind == 'dict':
          ops.append(('', 'setitem', 'f', t))
          ops.append(('', 'update', 'f', t))
          ops.append(('', 'ior', 'f', t))
          ops.append(('', 'setdefault', 'f', t))
          ops.append(('', 'construct', 'f', t))
        else:
          ops.append(('', 'construct', 'f', t))
          ops.append(('partial', 'construct', 'f', t))
      ops.append(('', 'setattr', 'g', 'a'))
      ops.append(('', 'rebind', 'zz', 0))
      if kind == 'dict':
        for sc in scopes:
          ops.append((sc, 'delitem', 'f'))
          ops.append((sc, 'pop', 'f'))
          ops.append((sc, 'clear'))
        ops.append(('', 'setitem', 'zz', 0))
        ops.append(('', 'update', 'zz', 0))
        ops.append(('', 'popitem'))
      else:
        ops.append(('', 'rebind', 'f', 'MISSING'))
    else:
      n = len(x)
      for t in toks:
        for sc in ('', 'partial'):
          ops.append((sc, 'append', t))
        ops.append(('', 'insert', 0, t))
        ops.append(('', 'extend', (t, t)))
        ops.append(('', 'iadd', (t,)))
        ops.append(('', 'rebind', 99, t))
        ops.append(('', 'rebind_ins', 0, t))
        ops.append(('', 'construct', t))
        if n:
          ops.append(('', 'setitem', 0, t))
          ops.append(('', 'setitem', -1, t))
          ops.append(('', 'rebind', 0, t))
          ops.append(('', 'setslice', (0, 1, None), (t, t)))
          ops.append(('', 'setslice', (None, None, None), (t,)))
      ops.append(('', 'imul', 2))
      ops.append(('', 'imul', 0))
      ops.append(('', 'setslice', (None, None, None), ()))
      if n:
        for sc in ('', 'partial'):
          ops.append((sc, 'delitem', 0))
          ops.append((sc, 'pop'))
        ops.append(('', 'remove0'))
        ops.append(('', 'clear'))
        ops.append(('', 'delslice', (None, None, None)))
        ops.append(('', 'delslice', (0, 1, None)))
        ops.append(('', 'rebind', 0, 'MISSING'))
        ops.append(('', 'reverse'))
    # operations on a nested typed container stored in f / at [0]
    if self.nested:
      inner = _inner(x, kind)
      core = S.strip(d)[0]
      if isinstance(inner, pg.List) and core[0] == 'list':
        for t in S.pool(core[1])[:14]:
          ops.append(('', 'in.append', t))
          ops.append(('', 'in.setitem0', t))
          # the same nested list written from its ancestor (a key path into the list) or with an insertion marker
          ops.append(('', 'anc.rebind', 0, t))
          ops.append(('', 'anc.rebind', 99, t))
          ops.append(('', 'anc.rebind_ins', 0, t))
          ops.append(('', 'in.setitem_ins', t))
        ops += [('', 'in.pop'), ('', 'in.clear'), ('', 'in.del0'), ('', 'in.imul', 2), ('', 'in.delslice'),
                ('', 'anc.rebind', 0, 'MISSING')]
      elif isinstance(inner, pg.Dict) and core[0] in ('dict', 'ddict'):
        k0 = core[1][0][0] if core[0] == 'dict' and core[1] else 'k1'
        e0 = core[1][0][1] if core[0] == 'dict' and core[1] else (core[2] if core[0] == 'ddict' else ('any',))
        for t in S.pool(e0)[:14]:
          ops.append(('', 'in.set', k0, t))
          ops.append(('', 'anc.rebind', k0, t))
        ops += [('', 'in.del', k0), ('', 'in.set', 'x', 0), ('', 'in.clear'), ('', 'in.pop', k0),
                ('', 'anc.rebind', k0, 'MISSING'), ('', 'anc.rebind', 'x', 0)]
    return ops

  def apply(self, w, op, rec, trace):
    kind, d, lo, hi, _ = w['init']
    x = w['x']
    sc = op[0]
    if sc == 'partial':
      w['partial_ok'] = True
    before_view = repr(view(x))
    before_target = self._target_view(x, kind, op)
    try:
      with _scope(sc):
        res = self._do(w, op)
      out = 'ok'
      err = None
    except Exception as e:  # pylint: disable=broad-except
      out = type(e).__name__
      err = e
    x = w['x']
    rec.stat(f'{kind}:{op[1]}:{out}')
    base = f'{kind}/{op[1]}' + (f'[{sc}]' if sc else '') + f'/{S.strip(d)[0][0]}'
    bad = False
    if err is not None:
      ok_classes = REJ + (IndexError,) if kind == 'list' or op[1].startswith(('in.', 'anc.')) else REJ
      if not isinstance(err, ok_classes):
        rec.viol(f'rejected-with-wrong-error:{out}/{base}', f'{op!r} on {before_view} raised {out}: {err}', trace)
        bad = True
      after_target = self._target_view(x, kind, op)
      if before_target is not None and after_target != before_target:
        rec.viol(f'rejected-write-stored/{base}', f'{op!r} raised {out} but the targeted location changed from '
                 f'{before_target} to {after_target}', trace)
        bad = True
    # the schema invariant, after every step, successful or not
    for clause, text in check_schema(x, w, kind, d, lo, hi):
      rec.viol(f'{clause}/{base}', f'after {op!r} ({out}) on {before_view}: {text}', trace)
      bad = True
    if not bad:
      rec.nt((kind, op[1], sc, out, repr(d)))
    return bad

  def _target_view(self, x, kind, op):
    try:
      if kind in ('dict', 'obj') and len(op) >= 3 and op[1] in ('setattr', 'rebind', 'setitem', 'update', 'ior', 'setdefault') \
          and op[2] in ('f', 'g'):
        return repr(view(x.sym_getattr(op[2]))) if x.sym_hasattr(op[2]) else '<absent>'
      if kind == 'list' and op[1] in ('setitem', 'rebind') and isinstance(op[2], int) and op[2] < len(x):
        return repr(view(x.sym_getattr(op[2])))
      if kind == 'list' and op[1] in ('append', 'insert', 'rebind_ins', 'iadd', 'extend'):
        return repr(view(x)) if op[1] in ('append', 'insert', 'rebind_ins') else None
      if op[1].startswith('anc.') or op[1] == 'in.setitem_ins':
        inner = _inner(x, kind)
        return None if inner is None else repr(view(inner))
    except Exception:  # pylint: disable=broad-except
      return None
    return None

  def _do(self, w, op):
    kind, d, lo, hi, _ = w['init']
    x = w['x']
    k = op[1]
    v = lambda t: S.val(t)
    if k == 'setattr':
      return setattr(x, op[2], v(op[3]))
    if k == 'setitem':
      x[op[2]] = v(op[3])
      return None
    if k == 'rebind':
      return x.rebind({op[2]: v(op[3])})
    if k == 'rebind_ins':
      return x.rebind({op[2]: pg.Insertion(v(op[3]))})
    if k == 'update':
      return x.update({op[2]: v(op[3])})
    if k == 'ior':
      x |= {op[2]: v(op[3])}
      w['x'] = x
      return None
    if k == 'setdefault':
      return x.setdefault(op[2], v(op[3]))
    if k == 'delitem':
      del x[op[2]]
      return None
    if k == 'pop':
      return x.pop(*op[2:])
    if k == 'popitem':
      return x.popitem()
    if k == 'clear':
      return x.clear()
    if k == 'construct':
      if kind == 'dict':
        nx = pg.Dict({op[2]: v(op[3])}, value_spec=S.mk(container_desc('dict', d)))
      elif kind == 'obj':
        nx = obj_class(d)(**{op[2]: v(op[3])})
      else:
        nx = pg.List([v(op[2])], value_spec=T.List(S.mk(d), min_size=lo, max_size=hi))
      w['x'] = nx
      return None
    if k == 'append':
      return x.append(v(op[2]))
    if k == 'insert':
      return x.insert(op[2], v(op[3]))
    if k == 'extend':
      return x.extend([v(t) for t in op[2]])
    if k == 'iadd':
      x += [v(t) for t in op[2]]
      w['x'] = x
      return None
    if k == 'imul':
      x *= op[2]
      w['x'] = x
      return None
    if k == 'setslice':
      x[slice(*op[2])] = [v(t) for t in op[3]]
      return None
    if k == 'delslice':
      del x[slice(*op[2])]
      return None
    if k == 'remove0':
      return x.remove(x[0])
    if k == 'reverse':
      return x.reverse()
    inner = _inner(x, kind)
    if k in ('anc.rebind', 'anc.rebind_ins'):
      head = pg.KeyPath(0) if kind == 'list' else pg.KeyPath('f')
      val = v(op[3])
      return x.rebind({pg.KeyPath(op[2], head): pg.Insertion(val) if k == 'anc.rebind_ins' else val})
    if k == 'in.setitem_ins':
      inner[0] = pg.Insertion(v(op[2]))
      return None
    if k == 'in.append':
      return inner.append(v(op[2]))
    if k == 'in.setitem0':
      inner[0] = v(op[2])
      return None
    if k == 'in.pop':
      return inner.pop()
    if k == 'in.clear':
      return inner.clear()
    if k == 'in.del0':
      del inner[0]
      return None
    if k == 'in.delslice':
      del inner[:]
      return None
    if k == 'in.imul':
      inner *= op[2]
      return None
    if k == 'in.set':
      inner[op[2]] = v(op[3])
      return None
    if k == 'in.del':
      del inner[op[2]]
      return None
    raise AssertionError(op)


def _inner(x, kind):
  try:
    if kind == 'list':
      return x.sym_getattr(0) if len(x) else None
    return x.sym_getattr('f') if x.sym_hasattr('f') else None
  except Exception:  # pylint: disable=broad-except
    return None


@contextlib.contextmanager
def _scope(sc):
  if sc == 'partial':
    with pg.allow_partial(True):
      yield
  elif sc == 'nopartial':
    with pg.allow_partial(False):
      yield
  else:
    yield


def check_schema(x, w, kind, d, lo, hi):
  out = []
  cdesc = w['cdesc']
  partial = w['partial_ok']
  try:
    pv = view(x)
  except Exception as e:  # pylint: disable=broad-except
    return [('unreadable', f'{type(e).__name__}: {e}')]
  # (0) the container still carries its schema
  if kind in ('dict', 'list') and x.value_spec is None:
    out.append(('schema-lost', 'the container no longer carries its value spec'))
    return out
  # (i) independent acceptor on the stored content
  r = S.acc(cdesc, pv, partial=partial)
  if r is False:
    out.append(('stored-state-violates-schema', f'stored content {pv!r} is not acceptable to {cdesc!r} '
                f'(partial allowed: {partial})'))
  # (ii) self-consistency with the real spec: stored members are accepted and map to themselves
  try:
    spec = S.mk(cdesc)
    again = spec.apply(_fresh(pv), allow_partial=partial)
    if not S.plain_eq(again, pv):
      out.append(('stored-member-not-fixpoint', f'spec maps stored content {pv!r} to {again!r}'))
  except REJ as e:
    if r is not False:
      out.append(('stored-state-rejected-by-own-spec', f'own spec rejects stored content {pv!r}: {type(e).__name__}: {e}'))
  # (iv) frozen members (covered by acc) and list bounds of nested typed lists are covered by acc on the view
  return out


def _fresh(v):
  import copy
  return copy.deepcopy(v)


# ---------------------------------------------------------------------------
def plans(ctx):
  g1 = S.grammar(1)
  g2 = S.grammar(2)
  inits = []
  def add(d, full=True):
    inits.append(('dict', d, 0, None, 'full'))
    inits.append(('obj', d, 0, None, 'full'))
    for lo, hi in ((0, None), (1, 2), (0, 3)):
      if lo == 0 or S.first_good(d) is not None:
        inits.append(('list', d, lo, hi, 'full'))
    if full:
      inits.append(('dict', d, 0, None, 'partial'))
      inits.append(('obj', d, 0, None, 'partial'))
  if ctx.thorough:
    for d in g2:
      add(d)
    return [(SchemaSpace(inits), 1),
            (SchemaSpace([i for i in inits if S.strip(i[1])[0][0] in ('int', 'list', 'dict', 'union', 'enum', 'ddict', 'tuple')
                          and i[1] in g1][::3]), 2)]
  covering = [d for d in g1 if S.strip(d)[0][0] in ('int', 'float', 'str', 'enum', 'bool', 'any')][::3]
  covering += [d for d in g1 if S.strip(d)[0][0] not in ('int', 'float', 'str', 'enum', 'bool', 'any')][::4]
  covering += [('frozen', ('noneable', ('int', 0, 2)), 1), ('union', (('list', ('int', 0, None), 0, None), ('str',))),
               ('list', ('int', 0, 2), 1, 2), ('dict', (('a', ('int', 0, 2)), ('b', ('default', ('str',), 'a'))))]
  for d in covering:
    add(d)
  deep = [('list', ('int', 0, 2), 1, 2), ('dict', (('a', ('int', 0, 2)), ('b', ('default', ('str',), 'a')))),
          ('noneable', ('int', 0, 2)), ('union', (('int', 0, 2), ('str',)))]
  inits2 = []
  for d in deep:
    inits2.append(('dict', d, 0, None, 'full'))
    inits2.append(('list', d, 1, 2, 'full'))
    inits2.append(('obj', d, 0, None, 'partial'))
  return [(SchemaSpace(inits), 1), (SchemaSpace(inits2), 2)]


# ---------------------------------------------------------------------------
# a typed child handed from one tree to another: the giver stays what it was, the receiver validates by its own rules
# ---------------------------------------------------------------------------
DONATIONS = [
    # (name, giver field spec, giver content, receiver field spec, a write the giver must still refuse afterwards)
    ('list-max', ('list', ('int', None, None), 0, 2), [1, 2], ('list', ('int', None, None), 0, None), ('append', 3)),
    ('list-min', ('list', ('int', None, None), 1, None), [1], ('list', ('int', None, None), 0, None), ('clear',)),
    ('list-element', ('list', ('int', 0, 2), 0, None), [1], ('list', ('int', None, None), 0, None), ('append', 7)),
    ('list-any', ('list', ('int', None, None), 0, None), [1], ('list', ('any',), 0, None), ('append', 'a')),
    ('dict-range', ('dict', (('a', ('int', 0, 2)),)), {'a': 1}, ('dict', (('a', ('int', None, None)),)), ('set', 'a', 7)),
    # the receiver is stricter in something is_compatible does not look at: it must refuse (or store a conforming value)
    ('recv-min', ('list', ('int', None, None), 0, None), [], ('list', ('int', None, None), 2, None), None),
    ('recv-frozen', ('dict', (('a', ('int', None, None)),)), {'a': 5}, ('dict', (('a', ('frozen', ('int', None, None), 1)),)), None),
    ('recv-frozen-elem', ('list', ('int', None, None), 0, None), [5], ('list', ('frozen', ('int', None, None), 1), 0, None), None),
]


def donation_item(rec, name):
  by = {d[0]: d for d in DONATIONS}
  _, give_d, content, recv_d, probe = by[name]
  for host in ('dict', 'list'):
    for how in ('setitem', 'rebind', 'construct'):
      rec.evals += 1
      rec.trans += 1
      tr = dict(kind='donation', name=name, host=host, how=how)
      giver = pg.Dict(value_spec=pg.typing.Dict([('f', S.mk(give_d))]), f=copy.deepcopy(content))
      child = giver.sym_getattr('f')
      before = (repr(child.value_spec), child.allow_partial, repr(view(child)), child.sym_parent is giver)
      recv_spec = pg.typing.Dict([('f', S.mk(recv_d))]) if host == 'dict' else pg.typing.List(S.mk(recv_d))
      try:
        if host == 'dict':
          if how == 'construct':
            recv = pg.Dict(value_spec=recv_spec, f=child)
          else:
            recv = pg.Dict.partial(value_spec=recv_spec)
            recv['f'] = child if how == 'setitem' else None
            if how == 'rebind':
              recv.rebind(f=child)
          stored = recv.sym_getattr('f')
        else:
          if how == 'construct':
            recv = pg.List([child], value_spec=recv_spec)
          else:
            recv = pg.List([], value_spec=recv_spec)
            if how == 'setitem':
              recv.append(child)
            else:
              recv.rebind({0: child})
          stored = recv.sym_getattr(0)
        out = 'ok'
      except REJ as e:
        out, stored = type(e).__name__, None
      rec.stat(f'donation:{name}:{out}')
      after = (repr(child.value_spec), child.allow_partial, repr(view(child)), child.sym_parent is giver)
      if after != before:
        what = [n for n, a, b in zip(('value_spec', 'allow_partial', 'content', 'parent'), before, after) if a != b]
        rec.viol(f'giver-changed-by-handing-its-child-over/{"+".join(what)}', f'{name} ({host}, {how}, outcome {out}): the giver\'s child '
                 f'was {before}, is now {after}', tr)
        continue
      if probe is not None:
        try:
          if probe[0] == 'append':
            child.append(probe[1])
          elif probe[0] == 'clear':
            child.clear()
          else:
            child[probe[1]] = probe[2]
          rec.viol('giver-accepts-a-write-its-schema-forbids', f'{name} ({host}, {how}): after handing the child over, {probe!r} on the giver\'s '
                   f'child succeeded: {view(child)!r}', tr)
          continue
        except REJ:
          pass
      if stored is not None:
        if stored is child:
          rec.viol('receiver-shares-the-givers-node', f'{name} ({host}, {how}): the receiver stores the very node that is still the giver\'s child', tr)
          continue
        if S.acc(recv_d, view(stored)) is False:
          rec.viol(f'stored-state-violates-schema/donation/{name}', f'{name} ({host}, {how}): the receiver stores {view(stored)!r}, which its field spec '
                   f'{recv_d!r} rejects', tr)
          continue
      rec.nt(('donation', name, host, how, out))


def run(ctx):
  ctx.pmap(donation_item, [d[0] for d in DONATIONS], chunk=1)
  ctx.rule = ('for every spec of the grammar a pg.Dict / pg.List (three size bounds) / pg.Object carrying it as field or '
              'element spec is built (full and partial) and every write path (accessors, rebind, update, |=, +=, *=, '
              'slices, insert, delete/pop/clear, constructor, nested container mutators) is driven with the '
              'boundary-complete value pool under the allow_partial scopes; after every step, successful or failed: '
              'independent acceptor on the stored content, own-spec fixpoint, schema still attached, rejected write => '
              'Type/Value/KeyError and target unchanged; distinct_nontrivial = distinct passing (container, op, scope, outcome, spec)')
  tot = []
  for sp, depth in plans(ctx):
    n = statespace.explore(ctx, sp, max_depth=depth, max_states=500000)
    tot.append(dict(initial_containers=len(sp.inits), depth=depth, states=n))
  ctx.capped[:] = [c for c in ctx.capped if 'history depth bound' not in c]
  ctx.note('plans', tot)
  ctx.assumptions += ['Str regex and user transforms are outside the grammar',
                      'the acceptor answers "unspecified" for bool-as-int, int-as-float and typed containers carrying '
                      'their own spec; only definite mismatches are reported']
  ctx.sample(dict(init=['list', ['int', 0, 2], 1, 2, 'full'], hist=[['', 'iadd', [3]], ['', 'delslice', [None, None, None]]]))


def replay(rec, data):
  if data.get('kind') == 'donation':
    return donation_item(rec, data['name'])
  init = statespace._tup(data['init'])
  sp = SchemaSpace([init])
  statespace.replay_trace(sp, rec, dict(data, init=init))
