"""C12: DNA views are lossless and stay aligned with the specification (E2 x E3)."""
from __future__ import annotations

import itertools

import pyglove as pg

from mc import choice
from mc import dnaspecs as D
from mc.props.c11 import shape

C = D.C

KEY_TYPES = ('id', 'name_or_id', 'dna_spec')
VALUE_TYPES = ('value', 'dna', 'choice', 'literal', 'choice_and_literal')
MC_KEYS = ('subchoice', 'parent', 'both')


def aligned(dna, spec, rec, what, base, tr):
  """Every node is bound to the decision point of its own position: compared with a DNA rebuilt from raw numbers."""
  try:
    ref = pg.DNA.from_numbers(dna.to_numbers(), spec)
  except Exception as e:  # pylint: disable=broad-except
    rec.viol(f'rebuild-from-numbers-raises/{what}/{base}', f'{what}: from_numbers(to_numbers()) raises {type(e).__name__}: {e}', tr)
    return False
  ok = True
  if ref != dna:
    rec.viol(f'numbers-rebuild-differs/{what}/{base}', f'{what}: {dna!r} rebuilt from its numbers is {ref!r}', tr)
    ok = False

  def walk(a, b, path):
    nonlocal ok
    if a.spec is not b.spec and ok:
      sa = getattr(a.spec, 'id', None)
      sb = getattr(b.spec, 'id', None)
      rec.viol(f'misaligned-node/{what}/{base}', f'{what}: node {path} of {dna!r} is bound to decision point '
               f'{str(sa)!r}, its position belongs to {str(sb)!r}', tr)
      ok = False
    for i, (x, y) in enumerate(zip(a.children, b.children)):
      walk(x, y, path + [i])

  if ref == dna:
    walk(dna, ref, [])
  if ok:
    try:
      va = dna.to_dict(key_type='dna_spec', value_type='dna')
      vb = ref.to_dict(key_type='dna_spec', value_type='dna')
      same = list(va.keys()) == list(vb.keys()) and all(k1 is k2 for k1, k2 in zip(va.keys(), vb.keys())) \
          and all(_eqv(va[k], vb[k]) for k in va)
      if not same or dna.to_dict() != ref.to_dict() \
          or dna.to_json(compact=True, type_info=False) != ref.to_json(compact=True, type_info=False) \
          or dna.to_dict(value_type='literal') != ref.to_dict(value_type='literal'):
        rec.viol(f'views-differ-from-rebuilt/{what}/{base}', f'{what}: exported views of {dna!r} differ from those of a '
                 f'DNA rebuilt from its numbers: {dna.to_dict()!r} vs {ref.to_dict()!r}', tr)
        ok = False
    except Exception as e:  # pylint: disable=broad-except
      rec.viol(f'views-raise/{what}/{base}', f'{what}: to_dict on {dna!r} raises {type(e).__name__}: {e}', tr)
      ok = False
  return ok


def _eqv(a, b):
  if isinstance(a, list) or isinstance(b, list):
    return isinstance(a, list) and isinstance(b, list) and len(a) == len(b) and all(x == y for x, y in zip(a, b))
  return a == b


def repeated_points(dna):
  """True if one decision point object is bound at more than one node (a candidate sub-space chosen twice)."""
  seen = set()
  dup = False

  def rec(n):
    nonlocal dup
    if n.spec is not None and getattr(n.spec, 'is_space', False) is False:
      if id(n.spec) in seen:
        dup = True
      seen.add(id(n.spec))
    for c in n.children:
      rec(c)
  rec(dna)
  return dup


def spec_item(rec, item):
  d, variant, tier = item
  names, literals = variant
  tr = dict(kind='spec', spec=d, names=names, literals=literals)
  spec = D.mk(d, names, literals)
  base = shape(d)
  lits = D.space_literals(d)
  if tier != 'thorough' and len(lits) > 8:
    lits = lits[:4] + lits[-4:]
  for lit in lits:
    trd = dict(tr, dna=lit)
    dna = pg.DNA(D.ctor(lit), spec=spec)
    rec.evals += 1
    ok = True
    # numbers
    for flatten in (True, False):
      try:
        nums = dna.to_numbers(flatten=flatten)
        back = pg.DNA.from_numbers(nums, spec) if flatten else pg.DNA(nums, spec=spec)
        if back != dna:
          rec.viol(f'numbers-lossy/flatten={flatten}/{base}', f'{lit!r} -> {nums!r} -> {back!r}', trd); ok = False
      except Exception as e:  # pylint: disable=broad-except
        rec.viol(f'numbers-raises/flatten={flatten}/{base}', f'{lit!r}: {type(e).__name__}: {e}', trd); ok = False
    # dict views under every parameter combination
    combos = list(itertools.product(KEY_TYPES, VALUE_TYPES, MC_KEYS, (False, True)))
    if tier != 'thorough' and lit is not lits[0] and lit is not lits[-1]:
      combos = combos[(len(repr(lit)) % 7)::7]       # a rotating 1/7 slice for the other DNAs (quick tier)
    for kt, vt, mk, inc in combos:
      rec.evals += 1
      try:
        dd = dna.to_dict(key_type=kt, value_type=vt, multi_choice_key=mk, include_inactive_decisions=inc)
        before = repr(dd)
        back = pg.DNA.from_dict(dict(dd), spec)
        if back != dna:
          rec.viol(f'dict-lossy/{kt}/{vt}/{mk}/{base}', f'{lit!r} -> {_short(dd)} -> {back!r}', trd); ok = False
        # the view handed to from_dict (through a shallow copy) must stay what to_dict returned, and work again
        if repr(dd) != before or pg.DNA.from_dict(dict(dd), spec) != dna \
            or repr(dna.to_dict(key_type=kt, value_type=vt, multi_choice_key=mk, include_inactive_decisions=inc)) != before:
          rec.viol(f'dict-view-consumed/{kt}/{vt}/{mk}', f'{lit!r}: the view {before} was changed by DNA.from_dict to {_short(dd)} '
                   f'(or no longer reconstructs the DNA)', trd); ok = False
      except Exception as e:  # pylint: disable=broad-except
        rec.viol(f'dict-raises:{type(e).__name__}/{kt}/{vt}/{mk}/{base}', f'{lit!r} (inactive={inc}): {e}', trd); ok = False
    # JSON
    for compact, type_info in ((True, True), (True, False), (False, True)):
      rec.evals += 1
      try:
        js = dna.to_json(compact=compact, type_info=type_info)
        back = pg.DNA.parse(js) if (compact and not type_info) else pg.from_json(js)
        back.use_spec(spec)
        if back != dna:
          rec.viol(f'json-lossy/compact={compact}/{base}', f'{lit!r} -> {js!r} -> {back!r}', trd); ok = False
        s = pg.from_json_str(pg.to_json_str(dna))
        s.use_spec(spec)
        if s != dna:
          rec.viol(f'json-str-lossy/{base}', f'{lit!r} -> {s!r}', trd); ok = False
      except Exception as e:  # pylint: disable=broad-except
        rec.viol(f'json-raises:{type(e).__name__}/compact={compact}/{base}', f'{lit!r}: {e}', trd); ok = False
    # lookups by decision point, id and name return the decision made there
    try:
      # keys: every subchoice decision point AND every multi-choice as a whole
      by_dp = dna.to_dict(key_type='dna_spec', value_type='dna', multi_choice_key='both')
      multi = repeated_points(dna)

      def point_lookups(when):
        nonlocal ok
        for dp, val in by_dp.items():
          got = dna[dp]
          if not _eqv(got, val) and not multi:
            rec.viol(f'lookup-by-decision-point{when}/{base}', f'{lit!r}[{dp.id.path!r}] gives {got!r}, the decision there is {val!r}', trd); ok = False
          got = dna[dp.id]
          if not _eqv(got, val) and not multi:
            rec.viol(f'lookup-by-id{when}/{base}', f'{lit!r}[{dp.id.path!r}] gives {got!r}, the decision there is {val!r}', trd); ok = False

      point_lookups('')
      if names:
        first_names = repr(dna.named_decisions)
        if repr(dna.named_decisions) != first_names:
          rec.viol(f'named-decisions-not-repeatable/{base}', f'{lit!r}: named_decisions differs between two reads', trd); ok = False
      if names:
        by_name = dna.to_dict(key_type='name_or_id', value_type='dna', multi_choice_key='parent')
        for name, val in by_name.items():
          got = dna[name]
          # documented: several decision points may share a name; inactive ones are reported as None
          if isinstance(got, list):
            got = [x for x in got if x is not None]
            got = got[0] if len(got) == 1 and not isinstance(val, list) else got
          if not _eqv(got, val) and not multi:
            rec.viol(f'lookup-by-name/{base}', f'{lit!r}[{name!r}] gives {got!r}, to_dict says {val!r}', trd); ok = False
        # the lookups by decision point / id give the same answers after the name table was built and read
        point_lookups('-after-name-lookups')
        if repr(dna.named_decisions) != first_names:
          rec.viol(f'named-decisions-not-repeatable/{base}', f'{lit!r}: named_decisions changed after lookups', trd); ok = False
    except Exception as e:  # pylint: disable=broad-except
      rec.viol(f'lookup-raises:{type(e).__name__}/{base}', f'{lit!r}: {e}', trd); ok = False
    if ok:
      rec.nt((repr(d), names, repr(lit)))
  # --- alignment of every DNA the library hands out (chains of producers, depth <= 2)
  producers = [
      ('clone-deep', lambda x: x.clone(deep=True)),
      ('clone-shallow', lambda x: x.clone(deep=False)),
      ('next_dna', lambda x: spec.next_dna(x)),
      ('from_numbers', lambda x: pg.DNA.from_numbers(x.to_numbers(), spec)),
      ('from_dict', lambda x: pg.DNA.from_dict(x.to_dict(), spec)),
      ('json+use_spec', lambda x: pg.from_json(x.to_json()).use_spec(spec)),
      ('parse+use_spec', lambda x: pg.DNA.parse(x.to_numbers(flatten=False)).use_spec(spec)),
      ('ctor(spec=)', lambda x: pg.DNA(x.to_numbers(flatten=False), spec=spec)),
      ('from_dict(reordered bound sub-DNAs)', lambda x: _from_reordered(x, spec)),
  ]
  starts = [('iter_dna', x) for x in itertools.islice(spec.iter_dna(), 4 if tier != 'thorough' else 16)]
  first = spec.first_dna()
  starts.append(('first_dna', first))
  for choices_, res, _ in choice.explore(lambda ch: spec.random_dna(ch), max_execs=6 if tier != 'thorough' else 40):
    if res == 'CAP':
      break
    starts.append((f'random_dna{choices_}', res))
  for sname, x in starts:
    rec.trans += 1
    aligned(x, spec, rec, sname.split('[')[0], base, dict(tr, start=sname))
    for p1, f1 in producers:
      sig_before = binding_signature(x)
      try:
        y = f1(x)
      except Exception as e:  # pylint: disable=broad-except
        rec.viol(f'producer-raises/{p1}/{base}', f'{p1} on {x!r}: {type(e).__name__}: {e}', dict(tr, start=sname)); continue
      if binding_signature(x) != sig_before:
        rec.viol(f'producer-modified-its-input/{p1}/{base}', f'{p1} on {x!r}: the source DNA (values or the decision points its nodes '
                 f'are bound to) changed', dict(tr, start=sname))
        aligned(x, spec, rec, f'source-after-{p1}', base, dict(tr, start=sname))
      if y is None:
        continue
      rec.trans += 1
      aligned(y, spec, rec, p1, base, dict(tr, start=sname, chain=[p1]))
      if sname in ('first_dna',) or (tier == 'thorough' and sname == 'iter_dna' and x is starts[min(3, len(starts) - 1)][1]):
        for p2, f2 in producers:
          try:
            z = f2(y)
          except Exception as e:  # pylint: disable=broad-except
            rec.viol(f'producer-raises/{p1}>{p2}/{base}', f'{type(e).__name__}: {e}', dict(tr, start=sname)); continue
          if z is None:
            continue
          rec.trans += 1
          aligned(z, spec, rec, f'{p2}', base, dict(tr, start=sname, chain=[p1, p2]))


def binding_signature(dna):
  """Values and bound decision points of every node (by identity), in tree order."""
  out = []

  def walk(n, path):
    out.append((tuple(path), n.value, id(n.spec)))
    for i, c in enumerate(n.children):
      walk(c, path + [i])
  walk(dna, [])
  return out


def _from_reordered(x, spec):
  """A new DNA built from the already bound sub-DNAs of x, with the choices of every multi-choice reversed."""
  view = x.to_dict(key_type='id', value_type='dna', multi_choice_key='parent')
  changed = False
  for k, v in list(view.items()):
    if isinstance(v, list) and len(v) > 1:
      view[k] = list(reversed(v))
      changed = True
  if not changed:
    return None
  try:
    return pg.DNA.from_dict(view, spec)
  except ValueError:
    return None          # the reversed order violates a sorted constraint


def _short(x):
  s = repr(x)
  return s if len(s) < 240 else s[:240] + '...'


def run(ctx):
  ctx.rule = ('every DNASpec of the C11 grammar (with and without names / literal values, distinct locations) x valid DNAs: '
              'to_numbers (flat, nested), to_dict under all 3x5x3x2 parameter combinations, to_json (compact with/without '
              'type info, verbose, string form) are inverted with the spec and compared with the original; lookups by '
              'decision point / id / name; every DNA handed out by iteration, next_dna, random_dna (choice sequences), '
              'parsing, from_numbers/from_dict/from_json, clone and their chains of length 2 is compared node by node and '
              'view by view with a DNA rebuilt from its raw numbers; distinct_nontrivial = (spec, variant, DNA) passing all views')
  g = D.grammar(60 if ctx.thorough else 30, 'thorough' if ctx.thorough else 'quick')
  if not ctx.thorough:
    g = g[::3]
  # conditional chains three deep (a choice inside a choice inside a choice), alone and next to a sibling decision
  chain3 = ('one', (C, ('space', (('one', (C, ('space', (('one', (C, C)),)))),))))
  g = list(g) + [('space', (chain3,)), ('space', (chain3, ('one', (C, C)))),
                 ('space', (('many', 2, (C, ('space', (('one', (C, ('space', (('one', (C, C)),)))),))), False, False),))]
  items = [(d, v, ctx.tier) for d in g for v in ((False, False), (True, True))]
  ctx.pmap(spec_item, items, chunk=1)
  ctx.states += len(items)
  ctx.note('specs', len(g))
  ctx.note('view_parameter_combinations', len(KEY_TYPES) * len(VALUE_TYPES) * len(MC_KEYS) * 2)
  ctx.sample(dict(spec=g[len(g) // 2], names=True, views=['to_numbers', 'to_dict(3x5x3x2)', 'to_json(x3)']))
  ctx.assumptions += ['literal values are pairwise distinct per decision point (otherwise a literal view cannot be inverted)',
                      'lookups are compared only when no decision point is bound at two nodes of the DNA']


def replay(rec, data):
  from mc import statespace
  spec_item(rec, (statespace._tup(data['spec']), (data.get('names', False), data.get('literals', False)), 'thorough'))
