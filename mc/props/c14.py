"""C14: evolution operators are closed over valid DNA and never corrupt their inputs (E2 x E3)."""
from __future__ import annotations

import itertools
import random

import pyglove as pg

from mc import choice
from mc import dnaspecs as D
from mc.props import c12

M = pg.evolution.mutators
R = pg.evolution.recombinators
S = pg.evolution.selectors
E = pg.evolution
C = D.C
F = ('float', 0.0, 1.0)

SPECS = {
    'flat': ('space', (('one', (C, C, C)), ('many', 2, (C, C, C), True, False))),
    'sorted-distinct': ('space', (('many', 3, (C, C, C, C), True, True),)),
    'sorted': ('space', (('many', 2, (C, C, C), False, True), ('one', (C, C)))),
    'cond-float': ('space', (('one', (C, ('space', (('one', (C, C)), F)))), F)),
    'cond-multi': ('space', (('many', 2, (C, ('space', (('one', (C, C)),))), False, False),)),
    'cond-distinct': ('space', (('many', 2, (C, C, ('space', (('many', 2, (C, C, C), True, True),))), True, False),)),
    'permutation': ('space', (('many', 3, (C, C, C), True, False),)),
    'perm-cond': ('space', (('many', 3, (('space', (('one', (C, C)),)), ('space', (('one', (C, C, C)),)), C), True, False),)),
    'two-perms': ('space', (('many', 3, (C, C, C), True, False), ('many', 2, (C, C), True, False), ('one', (C, C)))),
    # the whole space is ONE choice (choose one of N families), with a permutation and a float below it
    'root-choice': ('space', (('one', (('space', (('many', 3, (C, C, C), True, False),)), ('space', (F,)), C)),)),
    # a float whose bounds are not exactly representable sums: the mean of three values at a bound leaves the range
    'float-edge': ('space', (('float', 0.0, 0.1), ('float', 0.7, 1.0), ('one', (C, C)))),
}


def literals(d, n=None):
  """Valid literals of d (floats take representative values)."""
  def lits(x):
    if x[0] == 'space':
      per = [lits(e) for e in x[1]]
      return list(per[0]) if len(per) == 1 else [list(t) for t in itertools.product(*per)]
    if x[0] == 'float':
      return [x[1], x[2], x[1] + (x[2] - x[1]) / 4]
    if x[0] == 'one' or (x[0] == 'many' and x[1] == 1):
      cands = x[1] if x[0] == 'one' else x[2]
      out = []
      for i, c in enumerate(cands):
        out += [i] if c[0] == 'c' else [(i, s) for s in lits(c)]
      return out
    if x[0] == 'many':
      nn, cands, distinct, srt = x[1], x[2], x[3], x[4]
      out = []
      for idx in itertools.product(range(len(cands)), repeat=nn):
        if (distinct and len(set(idx)) != nn) or (srt and list(idx) != sorted(idx)):
          continue
        per = [[i] if cands[i][0] == 'c' else [(i, s) for s in lits(cands[i])] for i in idx]
        out += [list(t) for t in itertools.product(*per)]
      return out
  out = lits(d)
  return out


def snapshot(dnas):
  """Values, metadata, identity AND the place of each input in its own tree (a DNA handed in is a root)."""
  out = []
  for x in dnas:
    try:
      own_root = x.root is x
    except Exception as e:  # pylint: disable=broad-except
      own_root = f'root raises {type(e).__name__}'
    out.append((repr(x.to_json()), repr(dict(x.metadata)), id(x), x.sym_parent is None, str(x.sym_path), own_root))
  return out


def check_outputs(rec, spec, d, outs, what, tr):
  ok = True
  base = what.split('@')[0].replace('[seeded]', '')
  for o in outs:
    if not isinstance(o, pg.DNA):
      rec.viol(f'output-not-dna/{base}', f'{what} returned {type(o).__name__}', tr); ok = False
      continue
    lit = D.dna_literal(o)
    try:
      spec.validate(o)
      valid = True
    except Exception as e:  # pylint: disable=broad-except
      valid = False
      rec.viol(f'child-invalid/{base}', f'{what} produced {o!r}, rejected by validate: {e}', tr); ok = False
    if valid and not D.valid_space(d, lit):
      rec.viol(f'child-violates-constraints/{base}', f'{what} produced {lit!r} which violates the constraints of {d!r}', tr); ok = False
    elif valid:
      if o.spec is None:
        rec.viol(f'child-unbound/{base}', f'{what} produced a DNA without spec: {o!r}', tr); ok = False
      elif not c12.aligned(o, spec, rec, what.split('@')[0].replace('[seeded]', ''), 'evolution', tr):
        ok = False
  return ok


def run_op(rec, name, make_op, spec, d, inputs_lits, tr, cap, fitness=None, is_selector=False, expect_n=None):
  """Executes op on fresh inputs for every choice sequence of the module-level random source."""
  n_exec = 0
  outcomes = set()
  def once(ch):
    inputs = [pg.DNA(D.ctor(l), spec=spec) for l in inputs_lits]
    for i, x in enumerate(inputs):
      x.set_metadata('generation_id', 0)
      if fitness is not None:
        E.set_fitness(x, fitness[i])
    op = make_op()
    before = snapshot(inputs)
    holder = list(inputs)
    with choice.own_module_random(ch):
      try:
        out = op(holder)
        err = None
      except choice.Divergence:
        raise
      except Exception as e:  # pylint: disable=broad-except
        out, err = None, e
    after = snapshot(inputs)
    return inputs, holder, before, after, out, err
  for choices_, res, _ in choice.explore(once, max_execs=cap):
    if res == 'CAP':
      rec.add('choice_caps_hit', 1)
      rec.stat(f'cap:{name}')
      break
    inputs, holder, before, after, out, err = res
    n_exec += 1
    rec.evals += 1
    trc = dict(tr, op=name, inputs=inputs_lits, choices=choices_)
    if before != after:
      rec.viol(f'input-dna-modified/{name.split("@")[0]}', f'{name} changed an input DNA: {before} -> {after}', trc)
    if len(holder) != len(inputs) or any(a is not b for a, b in zip(holder, inputs)):
      rec.viol(f'input-list-modified/{name.split("@")[0]}', f'{name} changed the input list ({len(inputs)} -> {len(holder)} items)', trc)
    if err is not None:
      rec.stat(f'{name}:raises:{type(err).__name__}')
      if name.startswith(('mut.', 'rec.')) and 'mmutable' not in str(err):
        # valid parents of one specification: a mutator / recombinator has a valid child for them (a mutator may only
        # report that nothing in the DNA is mutable)
        rec.viol(f'operator-raises-on-valid-parents:{type(err).__name__}/{name.split("@")[0]}', f'{name} on {inputs_lits!r}: {err}', trc)
      continue
    rec.stat(f'{name}:ok')
    if is_selector:
      if any(all(o is not i for i in inputs) for o in out):
        rec.viol(f'selector-output-not-member/{name}', f'{name} returned an item that is not in its input population', trc)
      if expect_n is not None and len(out) != expect_n:
        rec.viol(f'selector-count/{name}', f'{name} returned {len(out)} items, documented {expect_n}', trc)
    else:
      check_outputs(rec, spec, d, [o for o in out if isinstance(o, pg.DNA)], name, trc)
    outcomes.add(repr([D.dna_literal(o) if isinstance(o, pg.DNA) else o for o in out]))
  rec.trans += n_exec
  return outcomes


def seeded(rec, name, make_seeded, spec, d, inputs_lits, tr):
  """Seeded operators are functions of seed and inputs (independent of the global random state)."""
  for seed in (0, 1):
    outs = []
    for gseed in (11, 99, 7, 5, 3, 1):
      random.seed(gseed)
      inputs = [pg.DNA(D.ctor(l), spec=spec) for l in inputs_lits]
      for x in inputs:
        x.set_metadata('generation_id', 0)
      try:
        op = make_seeded(seed)
        res = []
        for step in range(3):               # the same operator instance applied three times in a row
          out = op(inputs, step=step)
          res.append([D.dna_literal(o) for o in out])
          check_outputs(rec, spec, d, out, name + '[seeded]', dict(tr, op=name, seed=seed, inputs=inputs_lits))
        outs.append(repr(res))
      except Exception as e:  # pylint: disable=broad-except
        outs.append(f'EXC {type(e).__name__}')
      rec.evals += 1
    if len(set(outs)) != 1:
      rec.viol(f'seeded-not-deterministic/{name.split("@")[0]}', f'{name}(seed={seed}) applied 3 times to {inputs_lits!r}: '
               f'{sorted(set(outs))[:2]} under different global random states', dict(tr, op=name, seed=seed, inputs=inputs_lits))


OPS = {
    'mut.Uniform': (lambda: M.Uniform(), lambda s: M.Uniform(seed=s), 1),
    'mut.Swap': (lambda: M.Swap(), lambda s: M.Swap(seed=s), 1),
    'rec.Uniform': (lambda: R.Uniform(), lambda s: R.Uniform(seed=s), 2),
    'rec.Sample': (lambda: R.Sample(lambda p: [0.5] * len(p)), lambda s: R.Sample(lambda p: [0.5] * len(p), seed=s), 2),
    'rec.Average': (lambda: R.Average(), None, 2),
    'rec.WeightedAverage': (lambda: R.WeightedAverage(lambda x: [0.25, 0.75]), None, 2),
    'rec.KPoint1': (lambda: R.KPoint(1), lambda s: R.KPoint(1, seed=s), 2),
    'rec.KPoint2': (lambda: R.KPoint(2), lambda s: R.KPoint(2, seed=s), 2),
    'rec.Segmented': (lambda: R.Segmented(lambda xs: [1]), None, 2),
    'rec.PartiallyMapped': (lambda: R.PartiallyMapped(), lambda s: R.PartiallyMapped(seed=s), 2),
    'rec.Order': (lambda: R.Order(), lambda s: R.Order(seed=s), 2),
    'rec.Cycle': (lambda: R.Cycle(), lambda s: R.Cycle(seed=s), 2),
    'rec.Uniform3': (lambda: R.Uniform(), lambda s: R.Uniform(seed=s), 3),
    'rec.Average3': (lambda: R.Average(), None, 3),
    'rec.WeightedAverage3': (lambda: R.WeightedAverage(lambda x: [1.0, 1.0, 1.0]), None, 3),
}


def op_item(rec, item):
  sname, opname, tier = item
  if opname in ('rec.PartiallyMapped', 'rec.Order', 'rec.Cycle') and sname not in ('permutation', 'two-perms', 'flat', 'perm-cond', 'root-choice'):
    return
  d = SPECS[sname]
  spec = D.mk(d)
  lits = literals(d)
  make, make_seeded, arity = OPS[opname]
  tr = dict(kind='op', spec=sname)
  cap = 600 if tier == 'thorough' else 60
  if arity == 1:
    groups = [[l] for l in (lits if tier == 'thorough' else lits[:2] + lits[-1:])]
  else:
    pool = lits if len(lits) <= 6 else lits[:3] + lits[-3:]
    groups = [list(t) for t in itertools.permutations(pool, arity)]
    keep = 4 if tier != 'thorough' else 12
    groups = groups[::max(1, len(groups) // keep)][:keep]
  if arity >= 2:
    groups += [[l] * arity for l in (lits[0], lits[-1])]          # identical parents (also at the bounds of a float)
  for g in groups:
    outs = run_op(rec, f'{opname}@{sname}', make, spec, d, g, tr, cap)
    if outs:
      rec.nt((opname, sname, repr(g), len(outs)))
    if make_seeded is not None:
      seeded(rec, f'{opname}@{sname}', make_seeded, spec, d, g, tr)


HARD_MERGES = {
    # parents that cannot be merged position by position: the operator falls back to its last-resort path
    'perm6': (('space', (('many', 6, (C,) * 6, True, False),)), [[0, 1, 2, 3, 4, 5], [1, 2, 3, 4, 5, 0]]),
    'sorted6': (('space', (('many', 6, (C,) * 7, True, True),)), [[0, 1, 2, 3, 4, 5], [1, 2, 3, 4, 5, 6]]),
    'cond-perm4': (('space', (('one', (C, ('space', (('many', 4, (C,) * 4, True, False),)))),)),
                   [(1, [0, 1, 2, 3]), (1, [1, 2, 3, 0])]),
}


def hard_item(rec, item):
  name, opname = item
  d, parents = HARD_MERGES[name]
  spec = D.mk(d)
  _, make_seeded, _ = OPS[opname]
  tr = dict(kind='hard', spec=name, op=opname)
  for seed in range(6):
    outs = []
    for gseed in (11, 99, 7, 5, 3, 1, 2, 4):
      random.seed(gseed)
      inputs = [pg.DNA(D.ctor(l), spec=spec) for l in parents]
      for x in inputs:
        x.set_metadata('generation_id', 0)
      before = snapshot(inputs)
      try:
        out = make_seeded(seed)(inputs)
        outs.append(repr([D.dna_literal(o) for o in out]))
        check_outputs(rec, spec, d, out, opname + '[seeded]', dict(tr, seed=seed))
      except Exception as e:  # pylint: disable=broad-except
        outs.append(f'EXC {type(e).__name__}')
      if snapshot(inputs) != before:
        rec.viol(f'input-dna-modified/{opname}', f'{opname}(seed={seed}) changed its parents', dict(tr, seed=seed))
      rec.evals += 1
      rec.trans += 1
    if len(set(outs)) != 1:
      rec.viol(f'seeded-not-deterministic/{opname}', f'{opname}(seed={seed}) on {parents!r}: {sorted(set(outs))} under different '
               f'global random states', dict(tr, seed=seed))
    else:
      rec.nt((name, opname, seed, outs[0]))


def selector_item(rec, item):
  sname, tier = item
  d = SPECS[sname]
  spec = D.mk(d)
  lits = literals(d)[:3]
  fit = [1.0, 3.0, 2.0]
  tr = dict(kind='selector', spec=sname)
  w = lambda inputs: [1.0, 0.0, 2.0][:len(inputs)]
  sels = {
      'Random(2)': (lambda: S.Random(2), 2), 'Random(5,repl)': (lambda: S.Random(5, replacement=True), 5),
      'Random()': (lambda: S.Random(), 3), 'Random(0.5)': (lambda: S.Random(0.5), None),
      'Sample(2,w)': (lambda: S.Sample(2, w), 2), 'Proportional(3,w)': (lambda: S.Proportional(3, w), 3),
      'Top(1)': (lambda: S.Top(1), 1), 'Top(2)': (lambda: S.Top(2), 2), 'Bottom(1)': (lambda: S.Bottom(1), 1),
      'First(2)': (lambda: S.First(2), 2), 'Last(2)': (lambda: S.Last(2), 2), 'Top(5)': (lambda: S.Top(5), 3),
  }
  for name, (mk, n) in sels.items():
    outs = run_op(rec, f'sel.{name}', mk, spec, d, lits, tr, 400, fitness=fit, is_selector=True, expect_n=n)
    rec.nt((name, sname, len(outs)))
  for name, mk in (('Random(2)', lambda s: S.Random(2, seed=s)), ('Sample(2,w)', lambda s: S.Sample(2, w, seed=s))):
    for seed in (0, 1, 2):
      res = []
      for gseed in (5, 6):
        random.seed(gseed)
        inputs = [pg.DNA(D.ctor(l), spec=spec) for l in lits]
        for i, x in enumerate(inputs):
          E.set_fitness(x, fit[i])
        res.append([inputs.index(o) for o in mk(seed)(inputs)])
      if res[0] != res[1]:
        rec.viol(f'seeded-not-deterministic/sel.{name}', f'seed={seed}: {res}', dict(tr, op=name, seed=seed))


def expressions():
  I = E.Identity
  mut = lambda: M.Uniform()
  sw = lambda: M.Swap()
  top = lambda: S.Top(1)
  last = lambda: S.Last(2)
  rnd = lambda: S.Random(2)
  rec2 = lambda: R.Uniform()
  ex = {
      'Identity>>mut': lambda: I() >> mut(),
      'top>>mut': lambda: top() >> mut(),
      'last>>rec>>mut': lambda: last() >> rec2() >> mut(),
      'Identity+top': lambda: I() + top(),
      'top+Identity': lambda: top() + I(),
      '(Identity+top)*2': lambda: (I() + top()) * 2,
      'mut*2': lambda: mut() * 2,
      'mut**2': lambda: mut() ** 2,
      'top|last': lambda: top() | last(),
      'top&last': lambda: top() & last(),
      'Identity-top': lambda: I() - top(),
      '~top': lambda: ~top(),
      '-top': lambda: -top(),
      'last[0:1]': lambda: last()[0:1],
      'mut.with_prob(0.5)': lambda: mut().with_prob(0.5),
      'mut.with_prob(0.5)+top': lambda: mut().with_prob(0.5) + top(),
      'mut.if_true': lambda: mut().if_true(lambda x, s: True),
      'mut.if_false+last': lambda: mut().if_false(lambda x, s: True) + last(),
      'rnd>>sw': lambda: rnd() >> sw(),
      'Choice': lambda: E.Choice([(mut(), 0.5), (top(), 0.5)]),
      'Conditional': lambda: E.Conditional(lambda x, s: len(x) > 2, top(), mut()),
      'UntilChange': lambda: E.UntilChange(mut(), max_attempts=3) if _has_arg(E.UntilChange, 'max_attempts') else E.UntilChange(mut()),
  }
  return ex


def _has_arg(cls, name):
  try:
    return name in [f.key.text if hasattr(f.key, 'text') else str(f.key) for f in cls.__schema__.fields.values()]
  except Exception:  # pylint: disable=broad-except
    return False


def expr_item(rec, item):
  sname, ename, tier = item
  d = SPECS[sname]
  spec = D.mk(d)
  lits = literals(d)[:3]
  fit = [1.0, 3.0, 2.0]
  make = expressions()[ename]
  tr = dict(kind='expr', spec=sname, expr=ename)
  outs = run_op(rec, f'expr.{ename}', make, spec, d, lits, tr, 600 if tier == 'thorough' else 40, fitness=fit)
  # calling the same expression object twice on the same population must not accumulate state in the population
  inputs = [pg.DNA(D.ctor(l), spec=spec) for l in lits]
  for i, x in enumerate(inputs):
    E.set_fitness(x, fit[i])
    x.set_metadata('generation_id', 0)
  before = snapshot(inputs)
  op = make()
  random.seed(3)
  try:
    op(inputs)
    op(inputs)
  except Exception:  # pylint: disable=broad-except
    pass
  if snapshot(inputs) != before or len(inputs) != 3:
    rec.viol(f'input-list-modified/expr.{ename}', f'{ename}: the population changed after two calls ({len(inputs)} items)', tr)
  rec.nt((ename, sname, len(outs)))


def run(ctx):
  ctx.rule = ('every mutator / recombinator of the package (13 parameterisations) x 8 specifications (flat, sorted, distinct, '
              'conditional, float, permutations) x parents / ordered parent tuples x every choice sequence of the random '
              'source (cap reported): children validate, satisfy an independent constraint checker, are aligned node by node '
              '(C12 oracle); inputs and input list unchanged; selectors return input members in the documented number; seeded '
              'operators give identical results under different global random states; 23 composed expressions inherit the '
              'checks; distinct_nontrivial = (operator, spec, parents) with their distinct outcome counts')
  items = [(s, o, ctx.tier) for s in SPECS for o in OPS]
  ctx.pmap(op_item, items, chunk=1)
  ctx.pmap(hard_item, [(n, o) for n in HARD_MERGES for o in ('rec.Uniform', 'rec.Sample', 'rec.KPoint1', 'rec.PartiallyMapped', 'rec.Order', 'rec.Cycle')], chunk=1)
  ctx.pmap(selector_item, [(s, ctx.tier) for s in ('flat', 'cond-multi')], chunk=1)
  ex = [(s, e, ctx.tier) for s in ('flat', 'sorted-distinct', 'cond-multi') for e in expressions()]
  ctx.pmap(expr_item, ex, chunk=1)
  ctx.states += len(items) + len(ex)
  if ctx.extra.get('choice_caps_hit'):
    ctx.cap(f'choice-sequence cap hit for {ctx.extra["choice_caps_hit"]} (operator, parents) cases; all sequences below the cap were run')
  ctx.sample(dict(operator='mut.Swap', spec=SPECS['permutation'], parents=[[0, 1, 2]], choices=[0, 1, 0]))
  ctx.assumptions += ['random()/uniform() answered from 4 representatives', 'an operator raising on a specification it does not '
                      'support is counted, not reported']


def replay(rec, data):
  k = data.get('kind')
  if k == 'hard':
    hard_item(rec, (data['spec'], data['op']))
  elif k == 'op':
    op_item(rec, (data['spec'], data['op'].split('@')[0], 'thorough'))
  elif k == 'selector':
    selector_item(rec, (data['spec'], 'thorough'))
  else:
    expr_item(rec, (data['spec'], data['expr'], 'thorough'))
