"""C19: permission-gated code execution never runs a forbidden construct (E2 over generated programs x permission subsets)."""
from __future__ import annotations

import ast
import contextlib
import io
import itertools
import textwrap

import pyglove as pg

P = pg.coding.CodePermission
FLAGS = [P.ASSIGN, P.CONDITION, P.LOOP, P.CALL, P.EXCEPTION, P.CLASS_DEFINITION, P.FUNCTION_DEFINITION, P.IMPORT]
ALL = P(0)
for _f in FLAGS:
  ALL |= _f

# ---------------------------------------------------------------------------
# independent table: node class -> permission named in the property statement
# ---------------------------------------------------------------------------
MUST = {
    'Assign': P.ASSIGN, 'AugAssign': P.ASSIGN, 'AnnAssign': P.ASSIGN, 'NamedExpr': P.ASSIGN,
    'If': P.CONDITION, 'Match': P.CONDITION,
    'For': P.LOOP, 'While': P.LOOP, 'AsyncFor': P.LOOP,
    'Try': P.EXCEPTION, 'TryStar': P.EXCEPTION, 'Raise': P.EXCEPTION, 'Assert': P.EXCEPTION,
    'Call': P.CALL,
    'ClassDef': P.CLASS_DEFINITION,
    'FunctionDef': P.FUNCTION_DEFINITION, 'AsyncFunctionDef': P.FUNCTION_DEFINITION, 'Lambda': P.FUNCTION_DEFINITION,
    'Import': P.IMPORT, 'ImportFrom': P.IMPORT,
}
# constructs whose category is debatable: refusal and execution are both accepted
MAY = {'IfExp', 'ListComp', 'SetComp', 'DictComp', 'GeneratorExp', 'comprehension', 'With', 'AsyncWith', 'Return', 'Yield',
       'YieldFrom', 'Delete', 'Global', 'Nonlocal', 'Await'}


def required(code):
  r = P(0)
  may = False
  kinds = set()
  for node in ast.walk(ast.parse(code)):
    name = type(node).__name__
    if name in MUST:
      r |= MUST[name]
      kinds.add(name)
    if name in MAY:
      may = True
  return r, may, kinds


# ---------------------------------------------------------------------------
# program grammar
# ---------------------------------------------------------------------------
STMTS = {
    'Assign': 'v1 = 1',
    'AugAssign': 'v0 += 1',
    'AnnAssign': 'v2: int = 1',
    'If': 'if v0 == 0:\n    v0',
    'Match': 'match v0:\n    case 0:\n        v0\n    case _:\n        v0',
    'For': 'for _i in (1, 2):\n    v0',
    'While': 'while v0 == 7:\n    v0',
    'Try': 'try:\n    v0\nexcept Exception:\n    v0',
    'TryStar': 'try:\n    v0\nexcept* Exception:\n    v0',
    'Raise': 'if v0 == 7:\n    raise ValueError',
    'Assert': 'assert v0 == 0',
    'ClassDef': 'class K1:\n    pass',
    'FunctionDef': 'def f1():\n    pass',
    'AsyncFunctionDef': 'async def f2():\n    pass',
    'AsyncFor': 'async def f3():\n    async for _j in v4:\n        pass',
    'Import': 'import math',
    'ImportFrom': 'from math import pi',
}
EXPRS = {
    'NamedExpr': '(v3 := 1)',
    'Call': 'len(v4)',
    'Lambda': '(lambda: 0)',
    'benign': '(v0, v4)',
}
STMT_HOSTS = {
    'top': '{S}',
    'function-body': 'def h1():\n{S}',
    'class-body': 'class H2:\n{S}',
    'if-branch': 'if v0 == 0:\n{S}',
    'else-branch': 'if v0 == 7:\n    pass\nelse:\n{S}',
    'for-body': 'for _a in (1,):\n{S}',
    'for-else': 'for _a in ():\n    pass\nelse:\n{S}',
    'while-body': 'while v0 == 7:\n{S}',
    'try-body': 'try:\n{S}\nfinally:\n    pass',
    'except-handler': 'try:\n    v0\nexcept Exception:\n{S}',
    'finally': 'try:\n    v0\nfinally:\n{S}',
    'with-body': 'with ctxm:\n{S}',
    'match-case': 'match v0:\n    case _:\n{SS}',
    'async-function-body': 'async def h7():\n{S}',
}
EXPR_HOSTS = {
    'expr-stmt': '{E}',
    'call-argument': 'ident({E})',
    'subscript': 'anykey[{E}]',
    'f-string': 'f"{{{E}}}"',
    'f-string-format-spec': 'f"{{v0:{{{E}}}}}"',
    'default-value': 'def h3(a={E}):\n    pass',
    'decorator': '@pick({E})\ndef h4():\n    pass',
    'comprehension': '[{E} for _k in (1,)]',
    'lambda-body': '(lambda: {E})',
    'attribute-of': '({E}).__class__',
    'tuple-element': '(0, {E})',
    'assign-value': 'w1 = {E}',
    'return-value': 'def h5():\n    return {E}',
    'class-keyword': 'class H6(metaclass=pickmeta({E})):\n    pass',
    'ifexp': '(0 if v0 else {E})',
    'dict-value': '{{0: {E}}}',
    'slice-bound': 'v4[0:{E} and 0]',
    'annotation': 'w2: {E} = 0',
    'kw-default': 'def h8(*, k={E}):\n    pass',
}


def indent(s, n=4):
  return textwrap.indent(s, ' ' * n)


def fill_stmt(host, body):
  t = STMT_HOSTS[host]
  return t.replace('{SS}', indent(body, 8)).replace('{S}', indent(body, 4) if host != 'top' else body)


def fill_expr(host, e):
  return EXPR_HOSTS[host].format(E=e)


def programs(depth):
  """(label, source) for every gated construct in every position of every host (nested `depth` deep)."""
  out = []
  base = []
  for k, s in STMTS.items():
    base.append((k, s, 'stmt'))
  for k, e in EXPRS.items():
    base.append((k, e, 'expr'))
  level = []
  for k, code, kind in base:
    if kind == 'expr':
      for h in EXPR_HOSTS:
        level.append((f'{k}@{h}', fill_expr(h, code)))
    else:
      level.append((f'{k}@top', code))
  # every unit (a statement) inside every statement host
  cur = list(level)
  out += cur
  for _ in range(depth):
    nxt = []
    for label, code in cur:
      for h in STMT_HOSTS:
        if h == 'top':
          continue
        nxt.append((f'{label}>{h}', fill_stmt(h, code)))
    out += nxt
    cur = nxt
  # expression hosts nested in expression hosts (depth 2)
  if depth >= 2:
    for k, e in EXPRS.items():
      for h1, h2 in itertools.product(('call-argument', 'subscript', 'f-string', 'lambda-body', 'tuple-element', 'comprehension'), repeat=2):
        inner = EXPR_HOSTS[h1].format(E=e)
        out.append((f'{k}@{h1}@{h2}', EXPR_HOSTS[h2].format(E=inner)))
  # the LAST statement of a program is evaluated for its value: every statement form must still take effect there
  out += [
      ('Assign(tuple-target)@last', 'a, b = 1, 2'),
      ('Assign(starred-target)@last', 'a, *b = [1, 2, 3]'),
      ('Assign(subscript-target)@last', 'd = {}\nd["k"] = 1'),
      ('Assign(subscript-target-existing)@last', 'v4[0] = 5\nw = list(v4)') if False else ('Assign(subscript-target)@last-list', 'x = [0, 0]\nx[1] = 5'),
      ('Assign(chained-mixed-targets)@last', 'x = [0]\ny = x[0] = 7'),
      ('Assign(nested-tuple-target)@last', '(a, (b, c)) = (1, (2, 3))'),
      ('Assign(name-target)@last', 'q = 1\nr = q'),
  ]
  valid = []
  seen = set()
  for label, code in out:
    if code in seen:
      continue
    seen.add(code)
    try:
      compile(code, '<gen>', 'exec')      # also rejects programs the compiler refuses (e.g. walrus in an annotation)
    except SyntaxError:
      continue
    valid.append((label, code))
  return valid


class Sentinel:
  def __init__(self):
    self.hits = 0

  @property
  def hit(self):
    self.hits += 1
    return 0


class AnyKey:
  def __getitem__(self, k):
    return 0


def env(s):
  return dict(sentinel=s, v0=0, v4=[1, 2], ident=lambda x: x, pick=lambda x: (lambda f: f), pickmeta=lambda x: type,
              anykey=AnyKey(), ctxm=contextlib.nullcontext())


def plain_run(code):
  """What plain execution of the same text yields."""
  s = Sentinel()
  g = env(s)
  before = dict(g)
  out = io.StringIO()
  try:
    with contextlib.redirect_stdout(out):
      exec(compile(code, '<plain>', 'exec'), g)  # pylint: disable=exec-used
    err = None
  except Exception as e:  # pylint: disable=broad-except
    err = e
  new = {k: v for k, v in g.items() if not k.startswith('__') and (k not in before or v is not before[k])}
  return new, out.getvalue(), err


def simple(v):
  if isinstance(v, (int, float, str, bool, type(None))):
    return v
  if isinstance(v, (list, tuple)):
    return type(v)(simple(x) for x in v)
  return type(v).__name__


def subsets(req, thorough):
  if thorough:
    out = []
    for bits in range(256):
      s = P(0)
      for i, f in enumerate(FLAGS):
        if bits >> i & 1:
          s |= f
      out.append(s)
    return out
  out = [req, ALL, P(0), ALL & ~req if req else P(0)]
  for f in FLAGS:
    out.append(req & ~f)
    out.append(f)
    out.append(ALL & ~f)
  seen = []
  for s in out:
    if s not in seen:
      seen.append(s)
  return seen


def prog_item(rec, item):
  chunk, thorough = item
  for label, body in chunk:
    code = 'sentinel.hit\n' + body
    req, may, kinds = required(code)
    plain_vars, plain_out, plain_err = plain_run(code)
    construct = label.split('@')[0]
    position = label.split('@', 1)[1] if '@' in label else 'top'
    for S in subsets(req, thorough):
      rec.evals += 1
      tr = dict(kind='prog', code=code, permission=int(S.value), via='argument')
      s = Sentinel()
      for via in ('argument', 'scope'):
        s = Sentinel()
        tr = dict(kind='prog', code=code, permission=int(S.value), via=via)
        try:
          if via == 'argument':
            res = pg.coding.evaluate(code, global_vars=env(s), permission=S, outputs_intermediate=True)
          else:
            with pg.coding.permission(S):
              res = pg.coding.evaluate(code, global_vars=env(s), outputs_intermediate=True)
          err = None
        except pg.coding.CodeError as e:
          res, err = None, e
        except Exception as e:  # pylint: disable=broad-except
          rec.viol(f'unexpected-error:{type(e).__name__}/{construct}', f'{code!r} with {S!r}: {e}', tr)
          continue
        missing = req & ~S
        if missing:
          if err is None or not isinstance(err.__cause__, SyntaxError):
            ran = 'the program ran' if err is None else f'it failed at run time with {type(err.__cause__).__name__}'
            rec.viol(f'forbidden-construct-not-refused/{_first_kind(kinds, missing)}/via-{via}',
                     f'program needs {_names(req)} (constructs {sorted(kinds)}), granted {_names(S)} ({via}): {ran}. '
                     f'Position: {position}. Code: {code!r}', tr)
          if s.hits:
            rec.viol(f'ran-before-refusal/{construct}', f'{code!r} with {_names(S)}: the sentinel was touched {s.hits}x', tr)
        elif not may:
          if err is not None and isinstance(err.__cause__, SyntaxError):
            rec.viol(f'granted-program-refused/{construct}', f'program needs {_names(req)}, granted {_names(S)} ({via}) but was '
                     f'refused: {err.__cause__}. Code: {code!r}', tr)
          elif plain_err is not None:
            if err is None or type(err.__cause__) is not type(plain_err):
              rec.viol(f'runtime-error-not-wrapped/{construct}', f'{code!r}: plain execution raises {type(plain_err).__name__}, '
                       f'evaluate gives {err!r}', tr)
          elif err is not None:
            rec.viol(f'granted-program-fails/{construct}', f'{code!r} with {_names(S)}: {type(err.__cause__).__name__}: {err.__cause__}', tr)
          else:
            got = {k: simple(v) for k, v in res.items() if not k.startswith('__')}
            want = {k: simple(v) for k, v in plain_vars.items()}
            if got != want:
              rec.viol(f'intermediates-differ/{construct}', f'{code!r}: evaluate defines {got!r}, plain execution {want!r}', tr)
            if res.get('__stdout__') != plain_out:
              rec.viol(f'stdout-differs/{construct}', f'{code!r}', tr)
            if s.hits != 1:
              rec.viol(f'sentinel-count/{construct}', f'{code!r}: sentinel touched {s.hits}x', tr)
        else:
          if err is not None and isinstance(err.__cause__, SyntaxError) and s.hits:
            rec.viol(f'ran-before-refusal/{construct}', f'{code!r} with {_names(S)}: refused after touching the sentinel', tr)
      if not (req & ~S):
        rec.nt((code, int(S.value)))
    rec.trans += 1


def _names(p):
  return '|'.join(f.name for f in FLAGS if p & f) or 'NONE'


def _first_kind(kinds, missing):
  for k in sorted(kinds):
    if MUST[k] & missing:
      return k
  return '?'


def scope_item(rec, _):
  """Nested permission scopes: an outer scope is never widened by inner scopes or by an explicit argument."""
  cover = [P(0), P.ASSIGN, P.CALL, P.ASSIGN | P.CALL, P.LOOP | P.CONDITION, ALL & ~P.CALL, ALL]
  probe = 'sentinel.hit\nident(1)'        # needs CALL
  for outer, mid, inner in itertools.product(cover, cover, cover):
    rec.evals += 1
    tr = dict(kind='scope', outer=int(outer.value), mid=int(mid.value), inner=int(inner.value))
    with pg.coding.permission(outer):
      before = pg.coding.get_permission()
      with pg.coding.permission(mid):
        g_mid = pg.coding.get_permission()
        with pg.coding.permission(inner):
          g_in = pg.coding.get_permission()
          for eff, name in ((g_mid, 'middle'), (g_in, 'inner')):
            if eff is None or (eff & ~outer):
              rec.viol('scope-widened/get_permission', f'outer={_names(outer)} {name} scope reports {eff!r}', tr)
          # observed gating inside, with and without an explicit (wider) argument
          for arg in (None, ALL, inner, P(0), P.ASSIGN, P.CALL):
            s = Sentinel()
            try:
              pg.coding.evaluate(probe, global_vars=env(s), permission=arg)
              ran = True
            except pg.coding.CodeError:
              ran = False
            # the effective permission is the outermost scope intersected with the explicit argument
            if ran and arg is not None and not (arg & P.CALL):
              rec.viol('argument-ignored-inside-scope',
                       f'evaluate(permission={_names(arg)}) forbids calls, but inside scope {_names(outer)} '
                       f'(mid={_names(mid)}, inner={_names(inner)}) the call ran', tr)
            if not ran and (outer & P.CALL) and (arg is None or (arg & P.CALL)):
              rec.viol('granted-call-refused-inside-scope',
                       f'scope {_names(outer)} and argument {None if arg is None else _names(arg)} both allow calls, but the call was refused '
                       f'(mid={_names(mid)}, inner={_names(inner)})', tr)
            if ran and not (outer & P.CALL):
              rec.viol('scope-widened/evaluate' + ('-explicit-argument' if arg is not None else ''),
                       f'outer scope {_names(outer)} forbids calls, but evaluate(permission={arg!r}) inside '
                       f'(mid={_names(mid)}, inner={_names(inner)}) ran a call', tr)
            if not ran and s.hits:
              rec.viol('ran-before-refusal/scope', f'{tr}', tr)
        if pg.coding.get_permission() != g_mid:
          rec.viol('scope-not-restored', f'after leaving the inner scope: {pg.coding.get_permission()!r} != {g_mid!r}', tr)
      if pg.coding.get_permission() != before:
        rec.viol('scope-not-restored', f'after leaving the middle scope: {pg.coding.get_permission()!r} != {before!r}', tr)
    if pg.coding.get_permission() is not None:
      rec.viol('scope-not-restored', 'a permission is still set after the outermost scope', tr)
    rec.nt((int(outer.value), int(mid.value), int(inner.value)))
  rec.trans += 1


def error_item(rec, _):
  """Errors raised by permitted programs are reported as code errors with the original cause and position."""
  cases = [('v0\nv0 / 0', ZeroDivisionError, 2), ('x = 1\ny = 2\nundefined_name', NameError, 3),
           ('assert v0 == 1', AssertionError, 1),
           ('raise KeyError("k")', KeyError, 1), ('x = [1]\nx[3]', IndexError, 2)]
  for code, cls, line in cases:
    rec.evals += 1
    tr = dict(kind='error', code=code)
    try:
      pg.coding.evaluate(code, global_vars=env(Sentinel()), permission=ALL)
      rec.viol('runtime-error-swallowed', f'{code!r} returned normally', tr)
    except pg.coding.CodeError as e:
      if not isinstance(e.__cause__, cls):
        rec.viol('runtime-error-wrong-cause', f'{code!r}: cause {type(e.__cause__).__name__}, expected {cls.__name__}', tr)
      if getattr(e, 'lineno', None) != line:
        rec.viol('runtime-error-wrong-position', f'{code!r}: reported line {getattr(e, "lineno", None)}, expected {line}', tr)
    except Exception as e:  # pylint: disable=broad-except
      rec.viol('runtime-error-not-wrapped', f'{code!r} raised {type(e).__name__} instead of CodeError', tr)
    rec.nt(code)
  rec.trans += 1


def run(ctx):
  ctx.rule = ('programs generated from a grammar: each gated construct kind (20 node classes) placed in every position of '
              'every host construct (14 statement hosts, 19 expression hosts), hosts nested up to the depth bound; for each '
              'program the required permission set R comes from an independent node-class table; for every permission subset '
              '(quick: R, R minus each flag, each flag, ALL, ALL minus each flag, NONE; thorough: all 256), passed as argument '
              'and as scope: missing permission => CodeError from validation and an untouched sentinel; otherwise intermediates '
              '/ stdout equal plain exec; nested scopes 7x7x7 never widen; runtime errors wrapped with cause and line; '
              'distinct_nontrivial = (program, granted subset) pairs that executed and matched plain execution')
  progs = programs(2)
  if ctx.thorough:
    progs = progs
  chunks = [progs[i:i + 40] for i in range(0, len(progs), 40)]
  ctx.pmap(prog_item, [(c, ctx.thorough) for c in chunks], chunk=1)
  ctx.pmap(scope_item, [0], chunk=1)
  ctx.pmap(error_item, [0], chunk=1)
  ctx.states += len(progs)
  ctx.note('programs', len(progs))
  ctx.note('host_nesting_depth', 2)
  ctx.sample(dict(program=progs[len(progs) // 2][1], label=progs[len(progs) // 2][0]))
  ctx.assumptions += ['may-gate constructs (IfExp, comprehensions, with, return/yield, delete, global/nonlocal, await) accept both '
                      'refusal and execution; only "refused => nothing ran" is checked for programs containing them']


def replay(rec, data):
  k = data.get('kind')
  if k == 'prog':
    code = data['code']
    body = code.split('\n', 1)[1] if code.startswith('sentinel.hit\n') else code
    global subsets
    orig = subsets
    subsets = lambda req, thorough: [P(data['permission'])]
    try:
      prog_item(rec, ([('replay@top', body)], False))
    finally:
      subsets = orig
  elif k == 'scope':
    scope_item(rec, 0)
  else:
    error_item(rec, 0)
