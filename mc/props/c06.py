"""C06: algebraic laws of symbolic equality, hashing and ordering (E2: all pairs and triples)."""
from __future__ import annotations

import functools

import pyglove as pg

from mc import fixtures as fx

MISSING = pg.MISSING_VALUE


def universe(thorough):
  A, B, C, S, T = fx.EqA, fx.EqB, fx.EqC, fx.EqS, fx.EqT
  u = [
      ('MISSING', lambda: MISSING), ('None', lambda: None), ('False', lambda: False), ('True', lambda: True),
      ('0', lambda: 0), ('1', lambda: 1), ('2', lambda: 2), ('1.0', lambda: 1.0), ('1.5', lambda: 1.5),
      ("''", lambda: ''), ("'a'", lambda: 'a'), ("'b'", lambda: 'b'),
      ('[]', lambda: []), ('[0]', lambda: [0]), ('[0,1]', lambda: [0, 1]), ('[1]', lambda: [1]),
      ("['a']", lambda: ['a']), ('[[0]]', lambda: [[0]]), ('[None]', lambda: [None]),
      ('pg.List([0])', lambda: pg.List([0])), ('pg.List([0,1])', lambda: pg.List([0, 1])),
      ('()', lambda: ()), ('(0,)', lambda: (0,)), ('(0,1)', lambda: (0, 1)), ('(1,)', lambda: (1,)),
      ("('a',)", lambda: ('a',)), ("('a','b')", lambda: ('a', 'b')),
      ('{}', lambda: {}), ("{'a':0}", lambda: {'a': 0}), ("{'a':1}", lambda: {'a': 1}),
      ("{'a':0,'b':1}", lambda: {'a': 0, 'b': 1}), ("{'b':1,'a':0}", lambda: {'b': 1, 'a': 0}),
      ("{'b':0}", lambda: {'b': 0}), ("{'a':MISSING}", lambda: {'a': MISSING}), ("{'b':MISSING}", lambda: {'b': MISSING}),
      ("{'a':MISSING,'c':1}", lambda: {'a': MISSING, 'c': 1}), ("{'b':2,'c':1}", lambda: {'b': 2, 'c': 1}),
      ("[{'a':MISSING}]", lambda: [{'a': MISSING}]), ("[{'b':1}]", lambda: [{'b': 1}]),
      ('partial pg.Dict(c=1)', lambda: pg.Dict.partial(
          c=1, value_spec=pg.typing.Dict([('a', pg.typing.Int()), ('c', pg.typing.Int())]))),
      ('[1,2]', lambda: [1, 2]), ('[1.0,3]', lambda: [1.0, 3]), ('[True,4]', lambda: [True, 4]),
      ("{'a':1,'b':2}", lambda: {'a': 1, 'b': 2}), ("{'a':1.0,'b':3}", lambda: {'a': 1.0, 'b': 3}),
      ('[[1],2]', lambda: [[1], 2]), ('pg.List([[1],3])', lambda: pg.List([[1], 3])),
      ("{0:'x'}", lambda: {0: 'x'}), ("{0:'x','a':1}", lambda: {0: 'x', 'a': 1}), ("{'a':1,0:'x'}", lambda: {'a': 1, 0: 'x'}),
      ('pg.Dict(a=0)', lambda: pg.Dict(a=0)), ('pg.Dict(a=0,b=1)', lambda: pg.Dict(a=0, b=1)),
      ('pg.Dict(b=1,a=0)', lambda: pg.Dict(b=1, a=0)),
      ('A(0)', lambda: A(x=0)), ('A(1)', lambda: A(x=1)), ('B(0)', lambda: B(x=0)), ('C(0,1)', lambda: C(x=0, y=1)),
      ('C(0,0)', lambda: C(x=0, y=0)), ('S(0)', lambda: S(x=0)), ('S(1)', lambda: S(x=1)), ('T(0)', lambda: T(x=0)),
      ("[{'a':0}]", lambda: [{'a': 0}]), ("{'a':[0]}", lambda: {'a': [0]}), ('A([0])', lambda: A(x=[0])),
      ('A(A(0))', lambda: A(x=A(x=0))), ('[A(0)]', lambda: [A(x=0)]), ("{'k':A(0)}", lambda: {'k': A(x=0)}),
      ('S([S(0)])', lambda: S(x=[S(x=0)])), ('A(MISSING)', lambda: A.partial(x=MISSING)),
  ]
  if True:
    u += [
        ('-1', lambda: -1), ('0.0', lambda: 0.0), ("'ab'", lambda: 'ab'), ('[0,0]', lambda: [0, 0]), ('[1,0]', lambda: [1, 0]),
        ("[0,'a']", lambda: [0, 'a']), ('[[]]', lambda: [[]]), ('[[0],1]', lambda: [[0], 1]), ('[(0,)]', lambda: [(0,)]),
        ('pg.List([])', lambda: pg.List([])), ('pg.List([[0]])', lambda: pg.List([[0]])),
        ('(0,0)', lambda: (0, 0)), ('(1,0)', lambda: (1, 0)), ('(0.5,)', lambda: (0.5,)),
        ("{'a':None}", lambda: {'a': None}), ("{'a':{'b':0}}", lambda: {'a': {'b': 0}}), ("{'a':{'b':1}}", lambda: {'a': {'b': 1}}),
        ("{'a':0,'b':1,'c':2}", lambda: {'a': 0, 'b': 1, 'c': 2}), ("{'c':2,'a':0,'b':1}", lambda: {'c': 2, 'a': 0, 'b': 1}),
        ("{1:0,0:1}", lambda: {1: 0, 0: 1}), ("{0:1,1:0}", lambda: {0: 1, 1: 0}),
        ('pg.Dict()', lambda: pg.Dict()), ("pg.Dict(a=[0])", lambda: pg.Dict(a=[0])), ("pg.Dict({0:'x'})", lambda: pg.Dict({0: 'x'})),
        ('A(None)', lambda: A(x=None)), ("A('a')", lambda: A(x='a')), ('B(1)', lambda: B(x=1)), ('A(B(0))', lambda: A(x=B(x=0))),
        ('C(1,0)', lambda: C(x=1, y=0)), ('T(1)', lambda: T(x=1)), ('S(None)', lambda: S(x=None)), ('S(S(0))', lambda: S(x=S(x=0))),
        ("A({'a':0,'b':1})", lambda: A(x={'a': 0, 'b': 1})), ("A({'b':1,'a':0})", lambda: A(x={'b': 1, 'a': 0})),
        ("[{'a':0,'b':1}]", lambda: [{'a': 0, 'b': 1}]), ("[{'b':1,'a':0}]", lambda: [{'b': 1, 'a': 0}]),
        ('[A(0),A(1)]', lambda: [A(x=0), A(x=1)]), ('[A(1),A(0)]', lambda: [A(x=1), A(x=0)]),
        ("{'k':[A(0)]}", lambda: {'k': [A(x=0)]}), ('[True]', lambda: [True]), ('[1.0]', lambda: [1.0]),
        # same key set, different insertion order, values crossed (a walk in either operand's own order decides on a
        # different key): plain, symbolic, nested, int keys, three keys
        ("{'b':0,'a':1}", lambda: {'b': 0, 'a': 1}), ("{'a':1,'b':0}", lambda: {'a': 1, 'b': 0}),
        ('pg.Dict(b=0,a=1)', lambda: pg.Dict(b=0, a=1)), ('pg.Dict(a=1,b=0)', lambda: pg.Dict(a=1, b=0)),
        ("[{'b':0,'a':1}]", lambda: [{'b': 0, 'a': 1}]), ("A({'b':0,'a':1})", lambda: A(x={'b': 0, 'a': 1})),
        ("{'k':{'b':0,'a':1}}", lambda: {'k': {'b': 0, 'a': 1}}), ("{'k':{'a':0,'b':1}}", lambda: {'k': {'a': 0, 'b': 1}}),
        ('{0:0,1:1}', lambda: {0: 0, 1: 1}), ("{'a':1,0:'w'}", lambda: {'a': 1, 0: 'w'}), ("{0:'x','a':0}", lambda: {0: 'x', 'a': 0}),
        ("{'c':0,'b':1,'a':2}", lambda: {'c': 0, 'b': 1, 'a': 2}), ("{'b':0,'c':2,'a':1}", lambda: {'b': 0, 'c': 2, 'a': 1}),
    ]
  u += dynamic_keys() + mutated() + special_objects()
  if thorough:
    u += generated()
  seen = set()
  out = []
  for n, m in u:
    if n not in seen:
      seen.add(n)
      out.append((n, m))
  return out


def dynamic_keys():
  """Values with free-form keys inserted in different orders (schema-bound dicts / objects iterate them as inserted)."""
  K = fx.EqKw
  spec = lambda: pg.typing.Dict([('x', pg.typing.Any(default=None)), (pg.typing.StrKey(), pg.typing.Any())])
  return [
      ('Kw(x=1,p=1,q=2)', lambda: K(x=1, p=1, q=2)), ('Kw(x=1,q=2,p=1)', lambda: K(x=1, q=2, p=1)),
      ('Kw(x=1,p=1,q=3)', lambda: K(x=1, p=1, q=3)), ('Kw(x=1,q=1,p=2)', lambda: K(x=1, q=1, p=2)),
      ('Kw(x=1,p=1)', lambda: K(x=1, p=1)),
      ('typed{x=1,p=1,q=2}', lambda: pg.Dict(dict(x=1, p=1, q=2), value_spec=spec())),
      ('typed{x=1,q=2,p=1}', lambda: pg.Dict(dict(x=1, q=2, p=1), value_spec=spec())),
      ('typed{x=1,q=1,p=2}', lambda: pg.Dict(dict(x=1, q=1, p=2), value_spec=spec())),
      ('[Kw(p=1,q=2)]', lambda: [K(p=1, q=2)]), ('[Kw(q=2,p=1)]', lambda: [K(q=2, p=1)]),
  ]


def _twin_classes():
  def make():
    @pg.members([('x', pg.typing.Any(default=None))])
    class Twin(pg.Object):
      pass
    return Twin
  return make(), make()


TWIN1, TWIN2 = _twin_classes()       # two distinct classes with one qualified name (a class factory / same name in two modules)
_REF_TARGETS = [pg.Dict(v=1), pg.Dict(v=1), pg.Dict(v=2)]


def special_objects():
  t = _REF_TARGETS
  return [
      ('Twin1(1)', lambda: TWIN1(x=1)), ('Twin2(1)', lambda: TWIN2(x=1)), ('Twin2(2)', lambda: TWIN2(x=2)), ('Twin1(2)', lambda: TWIN1(x=2)),
      ('Ref(t0)', lambda: pg.Ref(t[0])), ('Ref(t0)#2', lambda: pg.Ref(t[0])), ('Ref(t1==t0)', lambda: pg.Ref(t[1])), ('Ref(t2)', lambda: pg.Ref(t[2])),
      ('A(Ref(t0))', lambda: fx.EqA(x=pg.Ref(t[0]))), ('A(Ref(t1))', lambda: fx.EqA(x=pg.Ref(t[1]))),
  ]


def mutated():
  """Values reached by mutation after they were hashed / compared once (every kind of write, notifying or not).
  Their plainly constructed twins are in the universe too, so eq => equal hash and the order laws relate the two."""
  A, S = fx.EqA, fx.EqS

  def touch(v):
    pg.hash(v)
    try:
      hash(v)
    except TypeError:
      pass
    pg.eq(v, v)
    return v

  def quiet(v, fn):
    touch(v)
    with pg.notify_on_change(False):
      fn(v)
    return v

  def skip(v, **kw):
    touch(v)
    v.rebind(skip_notification=True, **kw)
    return v

  def child_only(v):
    touch(v)
    v.x.rebind(x=1, notify_parents=False)
    return v

  def plainly(v, fn):
    touch(v)
    fn(v)
    return v

  return [
      ('A(1)', lambda: A(x=1)), ('A(A(1))', lambda: A(x=A(x=1))), ('A([0,1])', lambda: A(x=[0, 1])), ('S(S(1))', lambda: S(x=S(x=1))),
      ("{'a':1}", lambda: {'a': 1}), ('[0,1]', lambda: [0, 1]), ("{'k':A(1)}", lambda: {'k': A(x=1)}), ('[A(1)]', lambda: [A(x=1)]),
      ('mut:A(0).x=1', lambda: plainly(A(x=0), lambda v: v.rebind(x=1))),
      ('mut:A(0).x=1 quiet', lambda: quiet(A(x=0), lambda v: v.rebind(x=1))),
      ('mut:A(0).x=1 skip', lambda: skip(A(x=0), x=1)),
      ('mut:S(0).x=1 skip', lambda: skip(S(x=0), x=1)),
      ('mut:A(A(0)).x.x=1 child-only', lambda: child_only(A(x=A(x=0)))),
      ('mut:S(S(0)).x.x=1 child-only', lambda: child_only(S(x=S(x=0)))),
      ('mut:A([0]).x+=[1] quiet', lambda: quiet(A(x=[0]), lambda v: v.x.append(1))),
      ('mut:A([0]).x+=[1]', lambda: plainly(A(x=[0]), lambda v: v.x.append(1))),
      ("mut:pg.Dict(a=0).a=1 quiet", lambda: quiet(pg.Dict(a=0), lambda v: v.__setitem__('a', 1))),
      ('mut:pg.List([0])+[1] quiet', lambda: quiet(pg.List([0]), lambda v: v.append(1))),
      ("mut:{'k':A(0)}.k.x=1 quiet", lambda: quiet(pg.Dict(k=A(x=0)), lambda v: v.k.rebind(x=1))),
      ("mut:{'k':A(0)}.k.x=1 child-only", lambda: plainly(pg.Dict(k=A(x=0)), lambda v: v.k.rebind(x=1, notify_parents=False))),
      ('mut:[A(0)][0].x=1 quiet', lambda: quiet(pg.List([A(x=0)]), lambda v: v[0].rebind(x=1))),
  ]


def generated():
  """Systematically generated values: all short lists / tuples / dicts (every key order) / objects over small alphabets."""
  import itertools
  A, S = fx.EqA, fx.EqS
  atoms = [('MISSING', MISSING), ('None', None), ('False', False), ('True', True), ('0', 0), ('1', 1), ('1.5', 1.5),
           ("''", ''), ("'a'", 'a')]
  out = []
  def const(v):
    return lambda: v
  for n in (1, 2):
    for combo in itertools.product(atoms, repeat=n):
      vals = [v for _, v in combo]
      out.append(('[' + ','.join(k for k, _ in combo) + ']', (lambda vals=vals: list(vals))))
  for base in ([0, 1], ['', 'a']):
    for n in (1, 2):
      for combo in itertools.product(base, repeat=n):
        out.append((repr(tuple(combo)).replace(' ', ''), const(tuple(combo))))
  keys = ['a', 'b', 0]
  vals = [0, 1, None, MISSING]
  for k in keys:
    for v in vals:
      out.append((repr({k: v}).replace(' ', '').replace('MISSING_VALUE', 'MISSING'), (lambda k=k, v=v: {k: v})))
  for k1, k2 in itertools.permutations(keys, 2):
    for v1, v2 in itertools.product(vals, repeat=2):
      out.append((repr({k1: v1, k2: v2}).replace(' ', '').replace('MISSING_VALUE', 'MISSING'), (lambda k1=k1, k2=k2, v1=v1, v2=v2: {k1: v1, k2: v2})))
      if v1 == 0:
        out.append(('pg.Dict(' + repr({k1: v1, k2: v2}).replace(' ', '') + ')',
                    (lambda k1=k1, k2=k2, v1=v1, v2=v2: pg.Dict({k1: v1, k2: v2}))))
  for k, v in atoms:
    out.append((f'A({k})', (lambda v=v: A.partial(x=v))))
    out.append((f'S({k})', (lambda v=v: S.partial(x=v))))
    out.append((f'[A({k})]', (lambda v=v: [A.partial(x=v)])))
  return out


def cat(v):
  if pg.MISSING_VALUE == v and not isinstance(v, (dict, list)):
    return 'MISSING'
  if v is None:
    return 'None'
  if isinstance(v, bool):
    return 'bool'
  if isinstance(v, (int, float)):
    return 'num'
  if isinstance(v, str):
    return 'str'
  if isinstance(v, list):
    return 'list'
  if isinstance(v, tuple):
    return 'tuple'
  if isinstance(v, dict):
    return 'dict'
  return type(v).__name__


def detail(a, b):
  """Discriminating argument class for signatures."""
  ca, cb = cat(a), cat(b)
  extra = ''
  da, db = _first_dicts(a, b)
  if da is not None:
    ka, kb = list(da.keys()), list(db.keys())
    if set(ka) == set(kb) and ka != kb:
      extra = '(same-keys-different-order)'
    elif len({type(k) for k in ka + kb}) > 1:
      extra = '(mixed-key-types)'
  return f'{ca}~{cb}{extra}'


def _first_dicts(a, b):
  if isinstance(a, dict) and isinstance(b, dict):
    return a, b
  if isinstance(a, list) and isinstance(b, list) and len(a) == len(b):
    for x, y in zip(a, b):
      r = _first_dicts(x, y)
      if r[0] is not None:
        return r
  if isinstance(a, pg.Object) and isinstance(b, pg.Object) and type(a) is type(b):
    for (k1, x), (k2, y) in zip(a.sym_items(), b.sym_items()):
      r = _first_dicts(x, y)
      if r[0] is not None:
        return r
  return None, None


def call(fn, *args):
  try:
    return ('ok', fn(*args))
  except Exception as e:  # pylint: disable=broad-except
    return ('exc', type(e).__name__)


U = None


def row_item(rec, i):
  """All pair laws for row i; returns the row of the eq / lt matrices."""
  names = [n for n, _ in U]
  a = U[i][1]()
  eqrow, ltrow = [], []
  ha = call(pg.hash, a)
  for j, (nb, mk) in enumerate(U):
    b = mk() if j != i else a
    tr = dict(a=names[i], b=nb)
    rec.evals += 1
    e = call(pg.eq, a, b)
    n = call(pg.ne, a, b)
    l = call(pg.lt, a, b)
    g = call(pg.gt, b, a)
    d = detail(a, b)
    if e[0] != 'ok':
      rec.viol(f'eq-raises/{d}', f'pg.eq({names[i]}, {nb}) raises {e[1]}', tr)
      eqrow.append(None)
    else:
      eqrow.append(bool(e[1]))
      if n[0] != 'ok' or bool(n[1]) == bool(e[1]):
        rec.viol(f'ne-is-not-negation/{d}', f'pg.eq({names[i]}, {nb})={e[1]} pg.ne={n}', tr)
      if i == j and not e[1]:
        rec.viol(f'eq-not-reflexive/{d}', f'pg.eq(x, x) is False for {names[i]}', tr)
      e2 = call(pg.eq, b, a)
      if e2 != e and not (e2[0] == 'ok' and bool(e2[1]) == bool(e[1])):
        rec.viol(f'eq-not-symmetric/{d}', f'pg.eq({names[i]}, {nb})={e[1]} but reversed gives {e2}', tr)
      if e[1]:
        hb = call(pg.hash, b)
        if ha[0] == 'ok' and hb[0] == 'ok' and ha[1] != hb[1]:
          rec.viol(f'equal-but-different-hash/{d}', f'pg.eq({names[i]}, {nb}) but pg.hash differs', tr)
    if l[0] != 'ok':
      rec.viol(f'lt-raises/{d}', f'pg.lt({names[i]}, {nb}) raises {l[1]}', tr)
      ltrow.append(None)
    else:
      ltrow.append(bool(l[1]))
      if g[0] != 'ok' or bool(g[1]) != bool(l[1]):
        rec.viol(f'gt-is-not-swapped-lt/{d}', f'pg.lt({names[i]}, {nb})={l[1]} but pg.gt({nb}, {names[i]})={g}', tr)
    # operators for classes that opt into symbolic comparison
    if isinstance(a, (fx.EqS, fx.EqT)) and e[0] == 'ok':
      oe, on = call(lambda: a == b), call(lambda: a != b)
      if oe != ('ok', e[1]) or on != ('ok', not e[1]):
        rec.viol(f'operator-eq-disagrees/{d}', f'{names[i]} == {nb} gives {oe}, != gives {on}, pg.eq gives {e[1]}', tr)
      if i == j:
        hh = call(hash, a)
        if ha[0] == 'ok' and hh != ha:
          rec.viol(f'operator-hash-disagrees/{d}', f'hash({names[i]})={hh} pg.hash={ha}', tr)
  rec.trans += len(U)
  return (eqrow, ltrow)


EQ = LT = None


def triple_item(rec, i):
  names = [n for n, _ in U]
  n = len(U)
  vals = None
  for j in range(n):
    for k in range(n):
      rec.evals += 1
      if EQ[i][j] and EQ[j][k] and EQ[i][k] is False:
        vals = vals or [m() for _, m in U]
        rec.viol(f'eq-not-transitive/{detail(vals[i], vals[j])}/{cat(vals[k])}',
                 f'{names[i]} == {names[j]} == {names[k]} but not {names[i]} == {names[k]}', dict(a=names[i], b=names[j], c=names[k]))
      if LT[i][j] and LT[j][k] and LT[i][k] is False:
        vals = vals or [m() for _, m in U]
        rec.viol(f'lt-not-transitive/{detail(vals[i], vals[j])}/{cat(vals[k])}',
                 f'{names[i]} < {names[j]} < {names[k]} but not {names[i]} < {names[k]}', dict(a=names[i], b=names[j], c=names[k]))
      elif LT[i][j] and LT[j][k]:
        rec.nt((i, j, k))
  rec.trans += n * n


def run(ctx):
  global U, EQ, LT
  U = universe(ctx.thorough)
  names = [n for n, _ in U]
  ctx.rule = ('all ordered pairs and triples of the value universe (primitives, None, MISSING, lists/pg.List, tuples of '
              'mutually comparable primitives, dicts in different key orders and with int/str keys, pg.Dict, objects of a '
              'class / subclass with same fields / subclass with an extra field, opted-in classes, nestings): eq reflexive, '
              'symmetric, transitive, ne = not eq, eq => equal pg.hash, operators agree for opted-in classes, lt never raises, '
              'trichotomy, gt = swapped lt, lt transitive, sorting never raises; distinct_nontrivial = ordered chains a<b<c verified')
  rows = ctx.pmap(row_item, list(range(len(U))), chunk=1)
  EQ = [None] * len(U)
  LT = [None] * len(U)
  for i, r in rows:
    if r is not None:
      EQ[i], LT[i] = r
  if any(r is None for r in EQ):
    return
  # trichotomy on the matrices
  vals = [m() for _, m in U]
  for i in range(len(U)):
    for j in range(len(U)):
      if EQ[i][j] is None or LT[i][j] is None or LT[j][i] is None:
        continue
      cnt = int(EQ[i][j]) + int(LT[i][j]) + int(LT[j][i])
      if cnt != 1:
        ctx.viol(f'trichotomy/{detail(vals[i], vals[j])}',
                 f'for {names[i]} and {names[j]}: lt={LT[i][j]} eq={EQ[i][j]} gt={LT[j][i]} (exactly one must hold)',
                 dict(a=names[i], b=names[j]))
  ctx.pmap(triple_item, list(range(len(U))), chunk=2)
  # sorting never raises, and agrees with the pairwise order
  def cmp(a, b):
    return -1 if pg.lt(a, b) else (1 if pg.lt(b, a) else 0)
  try:
    sorted(vals, key=functools.cmp_to_key(cmp))
    ctx.stat('sorted-ok')
  except Exception as e:  # pylint: disable=broad-except
    if not any(s.startswith('lt-raises') for s in ctx.viols):
      ctx.viol('sorting-raises', f'sorted(universe, key=cmp_to_key(pg.lt)) raises {type(e).__name__}: {e}', dict(kind='sort'))
    ctx.stat('sorted-raises')
  ctx.states += len(U)
  ctx.note('universe', len(U))
  ctx.note('pairs', len(U) ** 2)
  ctx.note('triples', len(U) ** 3)
  ctx.sample(dict(a="{'a':0,'b':1}", b="{'b':1,'a':0}", laws=['eq-symmetric', 'trichotomy', 'hash']))
  ctx.assumptions += ['nan is excluded (IEEE makes trichotomy false by definition)',
                      'tuples hold mutually comparable primitives only; hash law applies where pg.hash is defined']


def replay(rec, data):
  global U, EQ, LT
  U = universe(True)
  names = [n for n, _ in U]
  if data.get('kind') == 'sort':
    return
  keep = [names.index(data[k]) for k in ('a', 'b', 'c') if k in data]
  U = [U[i] for i in keep]
  from mc.runner import Rec
  rows = [row_item(rec, i) for i in range(len(U))]
  EQ = [r[0] for r in rows]
  LT = [r[1] for r in rows]
  vals = [m() for _, m in U]
  for i in range(len(U)):
    for j in range(len(U)):
      if None not in (EQ[i][j], LT[i][j], LT[j][i]) and int(EQ[i][j]) + int(LT[i][j]) + int(LT[j][i]) != 1:
        rec.viol(f'trichotomy/{detail(vals[i], vals[j])}', f'{U[i][0]} vs {U[j][0]}', data)
  for i in range(len(U)):
    triple_item(rec, i)
