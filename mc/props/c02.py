"""C02: pg.List / pg.Dict == Python list / dict under every mutation history.

Explicit-state search to closure (E1) with a lock-step reference model: the
model is a plain list / dict.  Every (reachable content, operation) pair is
executed on fresh real objects reached by replaying a history.
"""
from __future__ import annotations

import itertools

import pyglove as pg

from mc import statespace

MISSING = pg.MISSING_VALUE
ERRS = (IndexError, KeyError, ValueError, TypeError)


# -- value tokens -----------------------------------------------------------
def val(tok):
  """Decodes a value token into a fresh plain value."""
  if tok == 'L':
    return [0]
  if tok == 'D':
    return {'x': 0}
  if tok == 'MISSING':
    return MISSING
  if isinstance(tok, tuple) and tok and tok[0] == 'INS':
    return pg.Insertion(val(tok[1]))
  return tok


def mval(tok):
  """Model-side value (Insertion / MISSING are interpreted by the model)."""
  if tok == 'L':
    return [0]
  if tok == 'D':
    return {'x': 0}
  return tok


def plain(v):
  """Plain-Python view of a value, through the public container protocol."""
  if isinstance(v, list):
    return [plain(e) for e in list.__iter__(v)] if not isinstance(v, pg.List) else [plain(e) for e in v]
  if isinstance(v, dict):
    return {k: plain(e) for k, e in v.items()}
  if isinstance(v, tuple):
    return tuple(plain(e) for e in v)
  return v


def outcome(fn):
  try:
    return ('ok', fn())
  except ERRS as e:
    for c in ERRS:
      if isinstance(e, c):
        return ('exc', c.__name__)
  except Exception as e:  # pylint: disable=broad-except
    return ('exc', type(e).__name__)


def idx_class(i, n):
  if i is None:
    return 'none'
  if i >= n:
    return 'oob+'
  if i < -n:
    return 'oob-'
  return 'neg' if i < 0 else 'pos'


def slice_class(s):
  st = s[2]
  return 'step+1' if st in (None, 1) else f'step{st:+d}'


# ---------------------------------------------------------------------------
# List space
# ---------------------------------------------------------------------------
class ListSpace(statespace.Space):
  reps_per_state = 2
  name = 'list'

  def __init__(self, lmax, elems=(0, 1, 2, 'L')):
    self.lmax = lmax
    self.elems = elems

  def initials(self):
    return [(), (0, 1), (2, 'L', 0)]

  def build(self, init):
    content = [mval(t) for t in init]
    return dict(x=pg.List([val(t) for t in init]), m=content)

  def canon(self, w):
    try:
      content = plain(list(w['x']))
    except Exception as e:  # pylint: disable=broad-except
      content = f'<unreadable {type(e).__name__}>'
    return (repr(content), repr(w['m']))

  def _slices(self, n):
    rng = [None] + list(range(-n - 1, n + 2))
    for a in rng:
      for b in rng:
        for st in (None, 1, 2, -1, -2):
          yield (a, b, st)

  def ops(self, w):
    m = w['m']
    n = len(m)
    ops = []
    idx = list(range(-n - 1, n + 2))
    for v in self.elems:
      ops.append(('append', v))
    for i in idx:
      for v in (0, 'L'):
        ops.append(('insert', i, v))
    for vs in ((), (1,), (1, 'L')):
      ops.append(('extend', vs))
      ops.append(('iadd', vs))
      ops.append(('add', vs))
    ops.append(('pop',))
    for i in idx:
      ops.append(('pop', i))
      ops.append(('del', i))
      for v in (0, 'L'):
        ops.append(('set', i, v))
    for v in self.elems:
      ops.append(('remove', v))
      ops.append(('index', v))
      ops.append(('count', v))
    for k in (0, 1, 2):
      ops.append(('mul', k))
      ops.append(('imul', k))
    ops += [('sort',), ('sort_r',), ('reverse',), ('clear',), ('copy',)]
    repl = ((), (1,), (1, 'L'), (1, 2, 0))
    for s in self._slices(n):
      ops.append(('delslice', s))
      for vs in repl:
        ops.append(('setslice', s, vs))
    # rebind: single and double paths, addressed by pre-state indices
    rvals = (0, 'L', ('INS', 1), 'MISSING')
    for i in range(0, n + 2):
      for v in rvals:
        ops.append(('rebind', ((i, v),)))
    for i, j in itertools.combinations(range(0, n + 1), 2):
      for v in (0, ('INS', 1), 'MISSING'):
        for u in (2, ('INS', 'L'), 'MISSING'):
          ops.append(('rebind', ((i, v), (j, u))))
    # keep inside the length bound (decided on the model, never on the impl)
    out = []
    for op in ops:
      mm = [e for e in m]
      r = outcome(lambda: self._model(mm, op))  # pylint: disable=cell-var-from-loop
      if len(mm) <= self.lmax and not (r[0] == 'ok' and isinstance(r[1], list) and len(r[1]) > self.lmax):
        out.append(op)
    return out

  # -- model --------------------------------------------------------------
  def _model(self, m, op):
    k = op[0]
    if k == 'append':
      return m.append(mval(op[1]))
    if k == 'insert':
      return m.insert(op[1], mval(op[2]))
    if k == 'extend':
      return m.extend([mval(t) for t in op[1]])
    if k == 'iadd':
      m += [mval(t) for t in op[1]]
      return None
    if k == 'add':
      return m + [mval(t) for t in op[1]]
    if k == 'pop':
      return m.pop(*op[1:])
    if k == 'del':
      del m[op[1]]
      return None
    if k == 'set':
      m[op[1]] = mval(op[2])
      return None
    if k == 'remove':
      return m.remove(mval(op[1]))
    if k == 'index':
      return m.index(mval(op[1]))
    if k == 'count':
      return m.count(mval(op[1]))
    if k == 'mul':
      return m * op[1]
    if k == 'imul':
      m *= op[1]
      return None
    if k == 'sort':
      return m.sort()
    if k == 'sort_r':
      return m.sort(reverse=True)
    if k == 'reverse':
      return m.reverse()
    if k == 'clear':
      return m.clear()
    if k == 'copy':
      return m.copy()
    if k == 'delslice':
      del m[slice(*op[1])]
      return None
    if k == 'setslice':
      m[slice(*op[1])] = [mval(t) for t in op[2]]
      return None
    if k == 'rebind':
      # Documented semantics: paths address the pre-state; applied from the
      # highest index down so earlier indices stay valid.
      for i, t in sorted(op[1], key=lambda p: p[0], reverse=True):
        if i >= len(m):
          if t != 'MISSING':
            m.append(mval(t[1] if isinstance(t, tuple) else t))
        elif isinstance(t, tuple):
          m.insert(i, mval(t[1]))
        elif t == 'MISSING':
          del m[i]
        else:
          m[i] = mval(t)
      return None
    raise AssertionError(op)

  def _impl(self, w, op):
    x = w['x']
    k = op[0]
    if k == 'append':
      return x.append(val(op[1]))
    if k == 'insert':
      return x.insert(op[1], val(op[2]))
    if k == 'extend':
      return x.extend([val(t) for t in op[1]])
    if k == 'iadd':
      x += [val(t) for t in op[1]]
      w['x'] = x
      return None
    if k == 'add':
      return x + [val(t) for t in op[1]]
    if k == 'pop':
      return x.pop(*op[1:])
    if k == 'del':
      del x[op[1]]
      return None
    if k == 'set':
      x[op[1]] = val(op[2])
      return None
    if k == 'remove':
      return x.remove(val(op[1]))
    if k == 'index':
      return x.index(val(op[1]))
    if k == 'count':
      return x.count(val(op[1]))
    if k == 'mul':
      return x * op[1]
    if k == 'imul':
      x *= op[1]
      w['x'] = x
      return None
    if k == 'sort':
      return x.sort()
    if k == 'sort_r':
      return x.sort(reverse=True)
    if k == 'reverse':
      return x.reverse()
    if k == 'clear':
      return x.clear()
    if k == 'copy':
      return x.copy()
    if k == 'delslice':
      del x[slice(*op[1])]
      return None
    if k == 'setslice':
      x[slice(*op[1])] = [val(t) for t in op[2]]
      return None
    if k == 'rebind':
      x.rebind({i: val(t) for i, t in op[1]}, raise_on_no_change=False)
      return None
    raise AssertionError(op)

  def _argclass(self, op, n):
    k = op[0]
    if k in ('insert', 'del', 'set') or (k == 'pop' and len(op) > 1):
      return idx_class(op[1], n)
    if k in ('delslice', 'setslice'):
      return slice_class(op[1])
    if k == 'rebind':
      kinds = []
      for i, t in op[1]:
        kinds.append(('ins' if isinstance(t, tuple) else 'del' if t == 'MISSING' else 'set')
                     + ('@end' if i >= n else ''))
      return '+'.join(kinds)
    return '-'

  def apply(self, w, op, rec, trace):
    n = len(w['m'])
    rm = outcome(lambda: self._model(w['m'], op))
    ri = outcome(lambda: self._impl(w, op))
    rec.stat(f'list:{op[0]}:{rm[0] if rm[0] == "ok" else rm[1]}')
    base = f'list/{op[0]}/{self._argclass(op, n)}'
    bad = False
    if rm[0] != ri[0] or (rm[0] == 'exc' and rm[1] != ri[1]):
      rec.viol(f'{base}/outcome:{_o(rm)}->{_o(ri)}',
               f'list {w["m"]!r} (pre-op content per model) op={op!r}: python list gives {rm!r}, pg.List gives {_short(ri)}', trace)
      bad = True
    elif rm[0] == 'ok':
      got = outcome(lambda: plain(ri[1]))
      if got != ('ok', rm[1]):
        rec.viol(f'{base}/result', f'op={op!r}: python returns {rm[1]!r}, pg.List returns {_short(got)}', trace)
        bad = True
      elif op[0] in ('add', 'mul', 'copy') and ri[1] is w['x']:
        rec.viol(f'{base}/result-aliases-self', f'op={op!r} returned the list itself', trace)
        bad = True
    clause = quick_agree_list(w['x'], w['m'])
    if clause:
      rec.viol(f'{base}/post:{clause[0]}', f'after op={op!r}: model={w["m"]!r}; {clause[1]}', trace)
      bad = True
    if not bad and repr(rm) not in ("('ok', None)",):
      rec.nt(('l', op[0], repr(w['m'])))
    elif not bad:
      rec.nt(('l', op[0], repr(w['m'])))
    return bad

  def check_state(self, w, rec, trace):
    clause = full_agree_list(w['x'], w['m'], self._slices(len(w['m'])))
    if clause:
      rec.viol(f'list/state/read:{clause[0]}', f'content per model={w["m"]!r}: {clause[1]}', trace)
      return True
    return False


def _o(r):
  return 'ok' if r[0] == 'ok' else r[1]


def _short(r):
  s = repr(r)
  return s if len(s) < 300 else s[:300] + '...'


def quick_agree_list(x, m):
  """Cheap read-back after every transition. Returns (clause, text) or None."""
  try:
    if not isinstance(x, pg.List):
      return ('not-a-pg.List', f'type {type(x).__name__}')
    it = plain([e for e in x])
    if it != m:
      return ('iteration', f'iter gives {it!r}')
    if len(x) != len(m):
      return ('len', f'len gives {len(x)}')
    if not (x == m) or not (m == x) or (x != m):
      return ('eq-plain', 'x == plain list disagrees')
    js = pg.to_json(x)
    if js != m:
      return ('to_json', f'to_json gives {js!r}')
    for i, e in enumerate(m):
      if isinstance(e, list) and not isinstance(x[i], pg.List):
        return ('nested-not-symbolic', f'x[{i}] is {type(x[i]).__name__}')
    # Insertion marker / MISSING must never be stored as an element.
    for i in range(len(m)):
      e = x[i]
      if isinstance(e, pg.Insertion) or e is MISSING:
        return ('marker-stored', f'x[{i}] = {e!r}')
  except Exception as e:  # pylint: disable=broad-except
    return ('read-raises', f'{type(e).__name__}: {e}')
  return None


def full_agree_list(x, m, slices):
  q = quick_agree_list(x, m)
  if q:
    return q
  n = len(m)
  try:
    for i in range(-n - 1, n + 2):
      a = outcome(lambda: m[i])  # pylint: disable=cell-var-from-loop
      b = outcome(lambda: plain(x[i]))  # pylint: disable=cell-var-from-loop
      if a != b:
        return (f'getitem/{idx_class(i, n)}', f'x[{i}] gives {b!r}, list gives {a!r}')
    for s in slices:
      a = m[slice(*s)]
      b = outcome(lambda: plain(x[slice(*s)]))  # pylint: disable=cell-var-from-loop
      if b != ('ok', a):
        return (f'getslice/{slice_class(s)}', f'x[{s}] gives {_short(b)}, list gives {a!r}')
    for v in (0, 1, 2, [0], [1]):
      if (v in x) != (v in m):
        return ('contains', f'{v!r} in x gives {v in x}')
      if x.count(v) != m.count(v):
        return ('count', f'count({v!r})')
    if plain(list(reversed(x))) != list(reversed(m)):
      return ('reversed', 'reversed(x)')
    if plain(list(x)) != m:
      return ('list()', 'list(x)')
    if bool(x) != bool(m):
      return ('bool', 'bool(x)')
    if pg.from_json(pg.to_json(x)) != m:
      return ('json-roundtrip', 'from_json(to_json(x)) != content')
  except Exception as e:  # pylint: disable=broad-except
    return ('read-raises', f'{type(e).__name__}: {e}')
  return None


# ---------------------------------------------------------------------------
# Dict space
# ---------------------------------------------------------------------------
KEYS = ('a', 'b', 'a.b', '0', 0, 1)


class DictSpace(statespace.Space):
  reps_per_state = 2
  name = 'dict'

  def __init__(self, dmax, vals=(0, 1, 'L')):
    self.dmax = dmax
    self.vals = vals

  def initials(self):
    return [(), (('a', 0), (0, 1)), (('a.b', 'L'), ('0', 1), ('b', 0))]

  def build(self, init):
    return dict(x=pg.Dict({k: val(t) for k, t in init}),
                m={k: mval(t) for k, t in init})

  def canon(self, w):
    try:
      content = list(plain(dict(w['x'].items())).items())
    except Exception as e:  # pylint: disable=broad-except
      content = f'<unreadable {type(e).__name__}>'
    return (repr(content), repr(list(w['m'].items())))

  def ops(self, w):
    m = w['m']
    ops = []
    for k in KEYS:
      for v in self.vals:
        ops.append(('set', k, v))
        ops.append(('rebind', ((k, v),)))
      ops.append(('set', k, 'MISSING'))
      ops.append(('rebind', ((k, 'MISSING'),)))
      ops.append(('del', k))
      ops.append(('pop', k))
      ops.append(('pop', k, 7))
      ops.append(('setdefault', k))
      ops.append(('setdefault', k, 'L'))
      ops.append(('get', k))
    for k in ('a', 'b'):
      ops.append(('setattr', k, 1))
      ops.append(('delattr', k))
      ops.append(('update_kw', ((k, 2),)))
    pairs = [((k1, 0),) for k1 in KEYS] + [((k1, 1), (k2, 'L')) for k1, k2 in itertools.permutations(KEYS, 2)]
    for p in pairs:
      ops.append(('update', p))
      ops.append(('update_pairs', p))
      ops.append(('ior', p))
      ops.append(('or', p))
      ops.append(('rebind', p))
    ops += [('popitem',), ('clear',), ('copy',), ('update', ()), ('ior', ())]
    out = []
    for op in ops:
      mm = dict(m)
      r = outcome(lambda: self._model(mm, op))  # pylint: disable=cell-var-from-loop
      if len(mm) <= self.dmax and not (r[0] == 'ok' and isinstance(r[1], dict) and len(r[1]) > self.dmax):
        out.append(op)
    return out

  def _model(self, m, op):
    k = op[0]
    if k in ('set', 'setattr'):
      if op[2] == 'MISSING':     # documented extension: MISSING deletes the key
        m.pop(op[1], None)
        return None
      m[op[1]] = mval(op[2])
      return None
    if k in ('del', 'delattr'):
      del m[op[1]]
      return None
    if k == 'pop':
      return m.pop(*op[1:])
    if k == 'setdefault':
      return m.setdefault(op[1], *[mval(t) for t in op[2:]])
    if k == 'get':
      return m.get(op[1])
    if k in ('update', 'update_pairs', 'update_kw', 'ior'):
      m.update({kk: mval(t) for kk, t in op[1]})
      return None
    if k == 'or':
      return m | {kk: mval(t) for kk, t in op[1]}
    if k == 'rebind':
      for kk, t in op[1]:
        if t == 'MISSING':
          m.pop(kk, None)
        else:
          m[kk] = mval(t)
      return None
    if k == 'popitem':
      return m.popitem()
    if k == 'clear':
      return m.clear()
    if k == 'copy':
      return m.copy()
    raise AssertionError(op)

  def _impl(self, w, op):
    x = w['x']
    k = op[0]
    if k == 'set':
      x[op[1]] = val(op[2])
      return None
    if k == 'setattr':
      setattr(x, op[1], val(op[2]))
      return None
    if k == 'del':
      del x[op[1]]
      return None
    if k == 'delattr':
      try:
        delattr(x, op[1])
      except AttributeError as e:   # getattr-protocol spelling of KeyError
        raise KeyError(op[1]) from e
      return None
    if k == 'pop':
      return x.pop(*op[1:])
    if k == 'setdefault':
      return x.setdefault(op[1], *[val(t) for t in op[2:]])
    if k == 'get':
      return x.get(op[1])
    if k == 'update':
      return x.update({kk: val(t) for kk, t in op[1]})
    if k == 'update_pairs':
      return x.update([(kk, val(t)) for kk, t in op[1]])
    if k == 'update_kw':
      return x.update(**{kk: val(t) for kk, t in op[1]})
    if k == 'ior':
      x |= {kk: val(t) for kk, t in op[1]}
      w['x'] = x
      return None
    if k == 'or':
      return x | {kk: val(t) for kk, t in op[1]}
    if k == 'rebind':
      # Keys are given as *keys* (KeyPath of one key), never as path strings.
      x.rebind({pg.KeyPath(kk): val(t) for kk, t in op[1]}, raise_on_no_change=False)
      return None
    if k == 'popitem':
      return x.popitem()
    if k == 'clear':
      return x.clear()
    if k == 'copy':
      return x.copy()
    raise AssertionError(op)

  def _argclass(self, op):
    k = op[0]
    def kc(key):
      return 'int' if isinstance(key, int) else ('dotted' if '.' in key else 'digits' if key.isdigit() else 'str')
    if k in ('set', 'setattr', 'del', 'delattr', 'pop', 'setdefault', 'get'):
      extra = '=MISSING' if (k == 'set' and op[2] == 'MISSING') else ''
      return kc(op[1]) + extra
    if k in ('update', 'update_pairs', 'update_kw', 'ior', 'or', 'rebind'):
      return (('dotted-key' if any(kc(kk) == 'dotted' for kk, _ in op[1]) else 'plain-keys')
              + ('+MISSING' if any(t == 'MISSING' for _, t in op[1]) else ''))
    return '-'

  def apply(self, w, op, rec, trace):
    rm = outcome(lambda: self._model(w['m'], op))
    ri = outcome(lambda: self._impl(w, op))
    rec.stat(f'dict:{op[0]}:{rm[0] if rm[0] == "ok" else rm[1]}')
    base = f'dict/{op[0]}/{self._argclass(op)}'
    bad = False
    if rm[0] != ri[0] or (rm[0] == 'exc' and rm[1] != ri[1]):
      rec.viol(f'{base}/outcome:{_o(rm)}->{_o(ri)}',
               f'op={op!r}: python dict gives {rm!r}, pg.Dict gives {_short(ri)}', trace)
      bad = True
    elif rm[0] == 'ok':
      got = outcome(lambda: plain(ri[1]))
      if got != ('ok', rm[1]) or (isinstance(rm[1], dict) and list(got[1].items()) != list(rm[1].items())):
        rec.viol(f'{base}/result', f'op={op!r}: python returns {rm[1]!r}, pg.Dict returns {_short(got)}', trace)
        bad = True
      elif op[0] in ('or', 'copy') and ri[1] is w['x']:
        rec.viol(f'{base}/result-aliases-self', f'op={op!r} returned the dict itself', trace)
        bad = True
      elif op[0] == 'setdefault' and isinstance(rm[1], (list, dict)) and any(rm[1] is v for v in w['m'].values()):
        # dict.setdefault hands back the very object the dict holds (d.setdefault(k, []).append(x) relies on it)
        if not any(ri[1] is v for v in w['x'].sym_values()):
          rec.viol(f'{base}/result-not-the-stored-object', f'op={op!r}: python returns the object stored under the key, pg.Dict returns '
                   f'another object ({type(ri[1]).__name__}); a change made through it is lost', trace)
          bad = True
    clause = agree_dict(w['x'], w['m'])
    if clause:
      rec.viol(f'{base}/post:{clause[0]}', f'after op={op!r}: model={w["m"]!r}; {clause[1]}', trace)
      bad = True
    if not bad:
      rec.nt(('d', op[0], repr(w['m'])))
    return bad

  def check_state(self, w, rec, trace):
    clause = agree_dict(w['x'], w['m'], full=True)
    if clause:
      rec.viol(f'dict/state/read:{clause[0]}', f'content per model={w["m"]!r}: {clause[1]}', trace)
      return True
    return False


def agree_dict(x, m, full=False):
  try:
    if not isinstance(x, pg.Dict):
      return ('not-a-pg.Dict', f'type {type(x).__name__}')
    items = [(k, plain(v)) for k, v in x.items()]
    if items != list(m.items()):
      return ('items-order' if dict(items) == m else 'items', f'items() gives {items!r}')
    if list(x.keys()) != list(m.keys()) or list(iter(x)) != list(m.keys()):
      return ('keys', f'keys() gives {list(x.keys())!r}')
    if plain(list(x.values())) != list(m.values()):
      return ('values', 'values()')
    if len(x) != len(m):
      return ('len', f'len gives {len(x)}')
    if not (x == m) or not (m == x) or (x != m):
      return ('eq-plain', 'x == plain dict disagrees')
    js = pg.to_json(x)
    if js != m or list(js.keys()) != list(m.keys()):
      return ('to_json', f'to_json gives {js!r}')
    for k in KEYS:
      if (k in x) != (k in m):
        return ('contains', f'{k!r} in x gives {k in x}')
      a = outcome(lambda: m[k])  # pylint: disable=cell-var-from-loop
      b = outcome(lambda: plain(x[k]))  # pylint: disable=cell-var-from-loop
      if a != b:
        return ('getitem', f'x[{k!r}] gives {b!r}, dict gives {a!r}')
      if plain(x.get(k, 9)) != m.get(k, 9):
        return ('get', f'get({k!r})')
      if isinstance(m.get(k), list) and not isinstance(x[k], pg.List):
        return ('nested-not-symbolic', f'x[{k!r}] is {type(x[k]).__name__}')
    if full:
      if plain(dict(x)) != m:
        return ('dict()', 'dict(x)')
      if bool(x) != bool(m):
        return ('bool', 'bool(x)')
      for k in ('a', 'b'):
        a = outcome(lambda: m[k])  # pylint: disable=cell-var-from-loop
        try:
          b = ('ok', plain(getattr(x, k)))
        except AttributeError:
          b = ('exc', 'KeyError')
        if a != b:
          return ('getattr', f'x.{k} gives {b!r}')
      rt = pg.from_json(pg.to_json(x))
      if rt != m:
        return ('json-roundtrip', 'from_json(to_json(x)) != content')
      s = pg.from_json_str(pg.to_json_str(x))
      if plain(dict(s.items())) != m or [type(k) for k in s.keys()] != [type(k) for k in m.keys()]:
        return ('json-str-roundtrip', f'from_json_str(to_json_str(x)) gives {s!r}')
  except Exception as e:  # pylint: disable=broad-except
    return ('read-raises', f'{type(e).__name__}: {e}')
  return None


# ---------------------------------------------------------------------------
# long lists (two-digit indices) and nested multi-path batches
# ---------------------------------------------------------------------------
def long_item(rec, n):
  """Every two-path batch rebind on a list of n >= 11 elements (indices address the pre-state)."""
  sp = ListSpace(99)
  kinds = (7, ('INS', 8), 'MISSING')
  for i, j in itertools.combinations(range(0, n + 1), 2):
    for a in kinds:
      for b in kinds:
        for order in (0, 1):
          pairs = ((i, a), (j, b)) if order == 0 else ((j, b), (i, a))
          m = list(range(100, 100 + n))
          x = pg.List(list(m))
          op = ('rebind', pairs)
          rm = outcome(lambda: sp._model(m, op))          # pylint: disable=cell-var-from-loop,protected-access
          ri = outcome(lambda: sp._impl(dict(x=x), op))   # pylint: disable=cell-var-from-loop,protected-access
          rec.evals += 1
          rec.trans += 1
          tr = dict(kind='long', n=n, pairs=[list(p) for p in pairs])
          kind = '+'.join(('ins' if isinstance(t, tuple) else 'del' if t == 'MISSING' else 'set') + ('@end' if k >= n else '')
                          for k, t in sorted(pairs))
          if rm[0] != ri[0]:
            rec.viol(f'list/rebind/long:{kind}/outcome', f'list(range(100, {100 + n})) rebind {dict(pairs)!r}: python model {rm!r}, pg.List {_short(ri)}', tr)
          elif plain(x) != m:
            rec.viol(f'list/rebind/long:{kind}/content', f'list(range(100, {100 + n})) rebind {dict(pairs)!r}: model {m!r}, pg.List {plain(x)!r}', tr)
          else:
            rec.nt(('long', n, kind))


NEST_PATHS = {
    'dict': (('a.x', 'a', 'a.y', 'a.z'), lambda: {'a': {'x': 0, 'y': 0}, 'k': 5}),
    'list-in-dict': (('b[0][0]', 'b[0]', 'b[0][1]', 'b[1]'), lambda: {'b': [[0, 1], 2], 'k': 5}),
}
NEST_VALUES = (1, 'D', 'L', 'MISSING')


def _nested_model(m, pairs):
  """Items of a batch are applied one after the other, each to the container it finds at that moment."""
  for path, tok in pairs:
    keys = pg.KeyPath.parse(path).keys
    cur = m
    for k in keys[:-1]:
      if isinstance(cur, dict):
        cur = cur[k]                 # KeyError if absent
      elif isinstance(cur, list):
        if not isinstance(k, int):
          raise KeyError(k)
        cur = cur[k]
      else:
        raise KeyError(k)            # writing below a leaf
    k = keys[-1]
    if isinstance(cur, dict):
      if tok == 'MISSING':
        cur.pop(k, None)
      else:
        cur[k] = mval(tok)
    elif isinstance(cur, list):
      if not isinstance(k, int):
        raise KeyError(k)
      if tok == 'MISSING':
        if k < len(cur):
          del cur[k]
      elif k >= len(cur):
        cur.append(mval(tok))
      else:
        cur[k] = mval(tok)
    else:
      raise KeyError(k)


def nested_item(rec, name):
  """Ordered batches of three paths where a container is written below, replaced and written below again."""
  paths, mk = NEST_PATHS[name]
  for ps in itertools.permutations(paths, 3):
    for vs in itertools.product(NEST_VALUES, repeat=3):
      pairs = tuple(zip(ps, vs))
      m = mk()
      x = pg.Dict(mk())
      rm = outcome(lambda: _nested_model(m, pairs))                                   # pylint: disable=cell-var-from-loop
      ri = outcome(lambda: x.rebind(dict(pairs_val(pairs)), raise_on_no_change=False))  # pylint: disable=cell-var-from-loop
      rec.evals += 1
      rec.trans += 1
      tr = dict(kind='nested', name=name, pairs=[list(p) for p in pairs])
      shape = '>'.join('below' if len(pg.KeyPath.parse(p).keys) > len(pg.KeyPath.parse(paths[1]).keys) else 'at' for p in ps)
      if rm[0] != ri[0]:
        rec.viol(f'dict/rebind/nested:{name}/{shape}/outcome', f'{mk()!r} rebind {list(pairs)!r}: model {rm!r}, pg.Dict {_short(ri)}', tr)
      elif rm[0] == 'ok' and plain(x) != m:
        rec.viol(f'dict/rebind/nested:{name}/{shape}/content', f'{mk()!r} rebind {list(pairs)!r}: model {m!r}, pg.Dict {plain(x)!r}', tr)
      else:
        rec.nt(('nested', name, shape, rm[0]))


def pairs_val(pairs):
  return [(p, val(t)) for p, t in pairs]


# ---------------------------------------------------------------------------
def spaces(tier):
  if tier == 'thorough':
    return [('list', ListSpace(4)), ('dict', DictSpace(3))]
  return [('list', ListSpace(3)), ('dict', DictSpace(2))]


def run(ctx):
  ctx.rule = ('explicit-state BFS to closure over (container content) states; every enabled operation of the '
              'list/dict API menu is executed on a fresh real pg.List/pg.Dict reached by replaying a history and '
              'in lock-step on a plain list/dict; distinct_nontrivial = distinct (operation kind, pre-state content) '
              'pairs whose transition agreed with the model; plus every two-path batch rebind on lists of 11-12 elements and '
              'every ordered three-path batch over a container, the paths below it and its replacement')
  ctx.assumptions += [
      'elements drawn from {0,1,2,[0]} (lists) / {0,1,[0]} (dicts); keys from ' + repr(KEYS),
      'length bounds: see coverage.bounds; operations that would exceed the bound (decided on the model) are not taken',
      'multi-path rebind uses distinct non-negative pre-state indices with at most one past-the-end index',
  ]
  bounds = {}
  for name, sp in spaces(ctx.tier):
    n = statespace.explore(ctx, sp, max_depth=12)
    bounds[name] = dict(states=n, bound=getattr(sp, 'lmax', None) or sp.dmax)
  ctx.pmap(long_item, [11, 12] if not ctx.thorough else [11, 12, 13, 21], chunk=1)
  ctx.pmap(nested_item, list(NEST_PATHS), chunk=1)
  ctx.note('bounds', bounds)
  ctx.sample(dict(init=[0, 1], hist=[['setslice', [None, None, -1], [1, 'L']], ['rebind', [[0, ['INS', 1]], [2, 'MISSING']]]]))
  ctx.sample(dict(init={'a': 0, 0: 1}, hist=[['update', [['a.b', 1], ['0', 'L']]], ['popitem']]))


def replay(rec, data):
  if data.get('kind') == 'long':
    return long_item(rec, data['n'])
  if data.get('kind') == 'nested':
    return nested_item(rec, data['name'])
  sp = DictSpace(3) if data.get('space') == 'dict' else ListSpace(4)
  data = dict(data, init=statespace._tup(data['init']))
  statespace.replay_trace(sp, rec, data)
