"""C08: write protection (sealed / treat-as-sealed scope / accessor-writable).

Enumerates trees x protected node x flag/scope configurations x the complete
mutator menu at the protected node and below (plus deep rebinds from the
root), executes every case on fresh real objects and compares with a small
reference permission function and with an unprotected twin run.
"""
from __future__ import annotations

import contextlib
import itertools

import pyglove as pg

from mc import symtree as st

WPE = pg.WritePermissionError
ACCESSOR_KINDS = ('set', 'del', 'setattr', 'delattr', 'setslice', 'delslice')
ROOTS = ('dict', 'list', 'obj', 'tdict', 'tlist', 'typedobj', 'rolist', 'typed_ro')
# roots that are sealed when constructed (constructor flag, class default, clone of a sealed value)
CTOR_SEALED = ('obj_sealed', 'dict_sealed', 'list_sealed', 'sealed_by_default', 'clone_of_sealed')


def snapshot(root):
  flags = [(keys, node.is_sealed, node.accessor_writable) for keys, node, _, _ in st.walk(root)]
  return (st.struct(root), repr(pg.to_json(root)), flags)


def configs(thorough):
  tri = (True, False, None)
  out = []
  for flag in (True, False):
    out.append(dict(flag=flag, sealed=(), acc=()))
    for s in tri:
      out.append(dict(flag=flag, sealed=(s,), acc=()))
    for s1, s2 in itertools.product(tri, tri):
      out.append(dict(flag=flag, sealed=(s1, s2), acc=()))
  for a in tri:
    out.append(dict(flag=False, sealed=(), acc=(a,)))
  for a1, a2 in itertools.product(tri, tri):
    out.append(dict(flag=False, sealed=(), acc=(a1, a2)))
  out.append(dict(flag=True, sealed=(False,), acc=(False,)))
  out.append(dict(flag=True, sealed=(None,), acc=(True,)))
  out.append(dict(flag='unseal', sealed=(), acc=()))
  if thorough:
    for s in itertools.product(tri, repeat=3):
      out.append(dict(flag=True, sealed=s, acc=()))
      out.append(dict(flag=False, sealed=s, acc=(None, False)))
  return out


@contextlib.contextmanager
def scopes(cfg):
  with contextlib.ExitStack() as es:
    for s in cfg['sealed']:
      es.enter_context(pg.as_sealed(s))
    for a in cfg['acc']:
      es.enter_context(pg.allow_writable_accessors(a))
    yield


def target_of(world, op):
  """The container whose content the op writes."""
  root = world['roots'][0]
  if op[1] == 'rebind_deep':
    keys = op[4][0][0]
    return st.resolve(root, tuple(op[3]) + tuple(keys[:-1]))
  return st.resolve(root, op[3])


def case_ops(world, ppath):
  ops = [op for op in st.menu(world, (0, 'sd', 'MISSING'), modes=('',), node_vals=False, with_copy=False)
         if tuple(op[3][:len(ppath)]) == tuple(ppath)]
  # accessor deletes through attributes, and deep rebinds from the root into the protected subtree
  root = world['roots'][0]
  for keys, node, parent, key in st.walk(root):
    if tuple(keys[:len(ppath)]) != tuple(ppath):
      continue
    if isinstance(node, pg.Dict):
      for k, _ in st.children(node):
        if isinstance(k, str):
          ops.append(('', 'delattr', 0, keys, k))
    for k, _ in st.children(node):
      full = tuple(keys) + (k,)
      if len(full) >= 2:
        for v in (0, 'sd'):
          ops.append(('', 'rebind_deep', 0, (), ((full, v),)))
  return ops


def run_case(rec, item):
  root_name, ppath, cfg = item
  probe = st.build_world((root_name,))
  ops = case_ops(probe, ppath)
  for op in ops:
    # unprotected twin: would the op change anything / how does it end?
    w2 = st.build_world((root_name,))
    before2 = snapshot(w2['roots'][0])
    r2 = st.apply_op(w2, op)
    changes = r2[0] == 'ok' and snapshot(w2['roots'][0]) != before2

    w = st.build_world((root_name,))
    root = w['roots'][0]
    pnode = st.resolve(root, ppath)
    trace = dict(root=root_name, ppath=list(ppath), cfg=cfg, op=op)
    base = f'{type(pnode).__name__}/{st.op_class(op)}'
    if cfg['flag'] == 'ctor':
      unsealed = [keys for keys, n, _, _ in st.walk(pnode) if not n.is_sealed]
      if unsealed:
        rec.viol(f'constructed-sealed-not-deep/{type(pnode).__name__}',
                 f'{root_name} is sealed at construction but descendants {unsealed} report unsealed', trace)
    elif cfg['flag']:
      pnode.seal()
      unsealed = [keys for keys, n, _, _ in st.walk(pnode) if not n.is_sealed]
      if unsealed:
        rec.viol(f'seal-not-deep/{type(pnode).__name__}', f'after seal() descendants {unsealed} are not sealed', trace)
      if cfg['flag'] == 'unseal':
        pnode.seal(False)
        still = [keys for keys, n, _, _ in st.walk(pnode) if n.is_sealed]
        if still:
          rec.viol(f'unseal-not-deep/{type(pnode).__name__}', f'after seal(False) descendants {still} stay sealed', trace)
    try:
      tnode = target_of(w, op)
    except Exception:  # pylint: disable=broad-except
      continue
    s_scope = cfg['sealed'][-1] if cfg['sealed'] else None
    a_scope = cfg['acc'][-1] if cfg['acc'] else None
    under_sealed = bool(cfg['flag']) and cfg['flag'] != 'unseal'   # target lies at or below the sealed node
    sealed_eff = (tnode.is_sealed or under_sealed) if s_scope is None else s_scope
    writable_eff = tnode.accessor_writable if a_scope is None else a_scope
    before = snapshot(root)
    flags_before = {id(n): (keys, n, n.is_sealed, n.accessor_writable) for keys, n, _, _ in st.walk(root)}
    with scopes(cfg):
      r = st.apply_op(w, op)
    after = snapshot(w['roots'][0])
    # no operation, permitted or refused, may change the protection flags of a node that stays in the tree
    for keys, n, _, _ in st.walk(w['roots'][0]):
      was = flags_before.get(id(n))
      if was is not None and (was[2], was[3]) != (n.is_sealed, n.accessor_writable):
        rec.viol(f'operation-changed-protection-flags/{base}',
                 f'{op!r} under cfg={cfg} (outcome {r[:2]}): node at {was[0]} had (sealed, accessor_writable)={was[2:]} and now has '
                 f'{(n.is_sealed, n.accessor_writable)}', trace)
        break
    rec.evals += 1
    rec.trans += 1
    raised_wpe = r[0] == 'exc' and isinstance(r[2], WPE)
    denied = sealed_eff or (op[1] in ACCESSOR_KINDS and not writable_eff)
    why = 'sealed' if sealed_eff else 'accessor'
    rec.stat(f'{"denied-" + why if denied else "allowed"}:{r[0] if r[0] == "ok" else r[1]}')
    if denied and not raised_wpe:
      rec.stat(f'denied-without-WPE(no-op on twin):{op[1]}')
    if denied:
      if after != before:
        rec.viol(f'{why}-denied-but-changed/{base}',
                 f'{op!r} under cfg={cfg} must be refused but the tree changed (outcome {r[:2]})', trace)
      elif not raised_wpe and changes:
        rec.viol(f'{why}-denied-but-no-error/{base}',
                 f'{op!r} under cfg={cfg} must raise WritePermissionError, got {r[:2]}', trace)
      else:
        rec.nt((root_name, tuple(ppath), repr(op), why))
    else:
      constrained = op[1] in ACCESSOR_KINDS or op[1].startswith('rebind') or writable_eff
      if raised_wpe and constrained:
        rec.viol(f'allowed-but-refused/{base}',
                 f'{op!r} under cfg={cfg} is permitted (sealed_eff={sealed_eff}, writable_eff={writable_eff}) '
                 f'but raised WritePermissionError', trace)
      elif raised_wpe and after != before and constrained:
        rec.viol(f'refused-but-changed/{base}', f'{op!r} raised WritePermissionError after changing the tree', trace)
      else:
        if r[0] == 'ok' and r2[0] == 'ok' and not cfg['sealed'] and not cfg['acc'] and after[:2] != snapshot(w2['roots'][0])[:2]:
          rec.viol(f'protected-twin-differs/{base}', f'{op!r}: permitted op gives a different tree than on the unprotected twin', trace)
        rec.nt((root_name, tuple(ppath), repr(op), 'allowed'))
  return None


def items(thorough):
  out = []
  for rn in ROOTS:
    w = st.build_world((rn,))
    for keys, node, _, _ in st.walk(w['roots'][0]):
      for cfg in configs(thorough):
        out.append((rn, tuple(keys), cfg))
  for rn in CTOR_SEALED:
    for sealed in ((), (None,), (False,), (True,), (False, None)):
      out.append((rn, (), dict(flag='ctor', sealed=sealed, acc=())))
  return out


def run(ctx):
  ctx.rule = ('enumeration of (tree, protected node, flag/scope configuration, operation): every mutator of the '
              'list/dict/object menu at the protected node and at every descendant, plus deep rebinds from the root into '
              'the protected subtree, executed on fresh real objects; oracle = reference permission function '
              '(innermost scope if not None else object flag) + unchanged snapshot + unprotected twin run; '
              'distinct_nontrivial = distinct (tree, node, op, verdict) that passed')
  its = items(ctx.thorough)
  ctx.pmap(run_case, its)
  ctx.states += len(its)
  ctx.note('configurations', len(configs(ctx.thorough)))
  ctx.note('protected_nodes', len({(i[0], i[1]) for i in its}))
  ctx.sample(dict(root='obj', ppath=['x'], cfg=dict(flag=True, sealed=[None, True], acc=[]),
                  op=['', 'rebind_deep', 0, [], [[['x', 'x'], 0]]]))
  ctx.assumptions += ['with accessors disabled only accessor writes/deletes and rebind are constrained (method mutators unconstrained)',
                      'a denied operation that would not change an unprotected twin tree (or errors there) may end any way, '
                      'but must leave the tree unchanged']


def replay(rec, data):
  from mc import statespace
  item = (data['root'], tuple(data['ppath']), data['cfg'])
  data['cfg']['sealed'] = tuple(data['cfg']['sealed'])
  data['cfg']['acc'] = tuple(data['cfg']['acc'])
  want = statespace._tup(data['op'])
  global case_ops
  orig = case_ops
  case_ops = lambda w, p: [want]
  try:
    run_case(rec, item)
  finally:
    case_ops = orig
