"""C07: clone fidelity and independence (E2 x E1)."""
from __future__ import annotations

import copy

import pyglove as pg

from mc import fixtures
from mc import statespace
from mc import symtree as st

ROOTS = st.ROOT_NAMES + ('typedobj', 'dict_sealed', 'list_sealed', 'obj_sealed', 'list_ro', 'dict_ro',
                         'dict_partial', 'list_partial', 'obj_partial', 'withref', 'withleaf', 'withtuple',
                         'unsealed_default_sealed', 'unsealed_root', 'instance_acc', 'instance_acc_root')
HOWS = ('clone_deep', 'clone_shallow', 'deepcopy', 'copy')


def do_clone(a, how):
  if how == 'clone_deep':
    return a.clone(deep=True)
  if how == 'clone_shallow':
    return a.clone(deep=False)
  if how == 'deepcopy':
    return copy.deepcopy(a)
  return copy.copy(a)


def flagmap(root, with_spec=True):
  out = []
  for keys, node, _, _ in st.walk(root):
    spec = getattr(node, 'value_spec', None) if isinstance(node, (pg.Dict, pg.List)) else None
    out.append((keys, type(node).__name__, node.is_sealed, node.allow_partial, node.accessor_writable,
                None if spec is None else (repr(spec) if with_spec else True)))
  return out


def leaves(root):
  """(keys, leaf object) for non-symbolic, non-primitive leaves."""
  out = []
  for keys, node, _, _ in st.walk(root):
    for k, v in st.children(node):
      if not st.is_container(v) and not isinstance(v, (int, float, str, bool, type(None), pg.Ref)) and not (pg.MISSING_VALUE == v):
        out.append((keys + (k,), v))
  return out


def deep_symbolic(root):
  """All symbolic objects reachable from root, also through tuples and plain containers."""
  out = {}

  def rec(v, depth=0):
    if depth > 12:
      return
    if isinstance(v, pg.Ref):
      return
    if isinstance(v, pg.Symbolic):
      if id(v) in out:
        return
      out[id(v)] = v
      if isinstance(v, (pg.Dict, pg.List, pg.Object)):
        for _, c in v.sym_items():
          rec(c, depth + 1)
    elif isinstance(v, (tuple, list)):
      for c in v:
        rec(c, depth + 1)
    elif isinstance(v, dict):
      for c in v.values():
        rec(c, depth + 1)

  rec(root)
  return out


def deep_leaves(root):
  """Mutable non-symbolic leaf objects reachable from root, also through tuples and plain containers."""
  out = {}
  seen = set()

  def rec(v, depth=0):
    if depth > 12 or isinstance(v, pg.Ref) or id(v) in seen:
      return
    if isinstance(v, (int, float, str, bool, bytes, type(None), type)) or pg.MISSING_VALUE == v or callable(v):
      return
    seen.add(id(v))
    if isinstance(v, (pg.Dict, pg.List, pg.Object)):
      for _, c in v.sym_items():
        rec(c, depth + 1)
    elif isinstance(v, pg.Symbolic):
      return
    elif isinstance(v, (tuple, list)):
      for c in v:
        rec(c, depth + 1)
    elif isinstance(v, dict):
      for c in v.values():
        rec(c, depth + 1)
    else:
      out[id(v)] = v

  rec(root)
  return out


def refs(root):
  out = []
  for keys, node, _, _ in st.walk(root):
    for k, v in st.children(node):
      if isinstance(v, pg.Ref):
        out.append((keys + (k,), v))
  return out


def _json(root):
  try:
    return repr(pg.to_json(root))
  except TypeError:          # pg.Ref / opaque leaves are not serializable
    return None


def snapshot(root, cheap=False):
  return (st.struct(root), None if cheap else _json(root), flagmap(root, with_spec=not cheap),
          [(k, id(v)) for k, v in leaves(root)])


def fidelity(a, b, how, rec, trace, label):
  deep = how in ('clone_deep', 'deepcopy')
  base = f'{label}/{how}'
  if type(a) is not type(b):
    rec.viol(f'type/{base}', f'clone type {type(b).__name__} != {type(a).__name__}', trace)
    return True
  bad = False
  if not pg.eq(a, b) or pg.ne(a, b):
    rec.viol(f'not-equal/{base}', 'pg.eq(original, clone) is False', trace)
    bad = True
  fa, fb = flagmap(a), flagmap(b)
  if fa != fb:
    diff = [(x, y) for x, y in zip(fa, fb) if x != y][:2]
    names = ('keys', 'type', 'sealed', 'allow_partial', 'accessor_writable', 'value_spec')
    which = sorted({names[i] for x, y in diff for i in range(len(names)) if x[i] != y[i]}) or ['shape']
    rec.viol(f'flags:{"+".join(which)}/{base}', f'per-node (type, sealed, allow_partial, accessor_writable, value_spec) '
             f'differ: {diff}', trace)
    bad = True
  topo = st.check_topology([a, b])
  for clause, text in topo:
    rec.viol(f'topology:{clause}/{base}', text, trace)
    bad = True
  # A tuple is a non-symbolic leaf: a shallow clone may share it (and whatever it holds).
  ids_a = deep_symbolic(a) if deep else st.all_nodes([a])
  ids_b = deep_symbolic(b) if deep else st.all_nodes([b])
  shared = set(ids_a) & set(ids_b)
  if shared:
    rec.viol(f'shares-symbolic-node/{base}', f'{len(shared)} symbolic containers are the same object in both copies', trace)
    bad = True
  la, lb = leaves(a), leaves(b)
  if [k for k, _ in la] == [k for k, _ in lb]:
    same = [x is y for (_, x), (_, y) in zip(la, lb)]
    if not deep and not all(same):
      rec.viol(f'shallow-copied-leaf/{base}', 'a shallow clone must share non-symbolic leaf objects', trace)
      bad = True
    if deep and any(same) and la:
      rec.viol(f'deep-shares-leaf/{base}', 'a deep clone shares a mutable non-symbolic leaf object', trace)
      bad = True
  if deep:
    both = set(deep_leaves(a)) & set(deep_leaves(b))
    if both:
      rec.viol(f'deep-shares-leaf-below-tuple/{base}', f'a deep clone shares {len(both)} mutable non-symbolic leaf object(s) '
               f'(reached through tuples / plain containers): {[type(deep_leaves(a)[i]).__name__ for i in both][:3]}', trace)
      bad = True
  ra, rb = refs(a), refs(b)
  if [k for k, _ in ra] != [k for k, _ in rb] or any(x.value is not y.value for (_, x), (_, y) in zip(ra, rb)):
    rec.viol(f'ref-target-not-shared/{base}', 'a pg.Ref in the clone must point to the very same target object', trace)
    bad = True
  try:
    if pg.hash(a) != pg.hash(b):
      rec.viol(f'hash/{base}', 'pg.hash differs between original and clone', trace)
      bad = True
  except Exception:  # pylint: disable=broad-except
    pass
  return bad


class CloneSpace(statespace.Space):
  name = 'clone'

  def __init__(self, inits, vals):
    self.inits = inits
    self.vals = vals

  def initials(self):
    return list(self.inits)

  def build(self, init):
    name, how = init
    a = st.make_root(name)
    return dict(roots=[a, do_clone(a, how)], detached=[], how=how, name=name)

  def canon(self, w):
    return tuple(snapshot(r, cheap=True)[:3] for r in w['roots'])

  def ops(self, w):
    return st.menu(w, self.vals, modes=('',), with_copy=False, node_vals=False)

  def apply(self, w, op, rec, trace):
    other = 1 - op[2]
    before = snapshot(w['roots'][other], cheap=True)
    r = st.apply_op(w, op)
    rec.stat(f'{op[1]}:{r[0] if r[0] == "ok" else r[1]}')
    after = snapshot(w['roots'][other], cheap=True)
    if after != before:
      who = 'original' if other == 0 else 'clone'
      rec.viol(f'interference/{w["how"]}/{st.container_kind(w, op)}.{st.op_class(op)}',
               f'{op!r} on the {"clone" if other == 0 else "original"} changed the {who} '
               f'(root kind {w["name"]})', trace)
      return True
    topo = st.check_topology(w['roots'])
    if topo:
      rec.viol(f'topology-after-mutation:{topo[0][0]}/{w["how"]}', topo[0][1], trace)
      return True
    if r[0] == 'ok':
      rec.nt((w['name'], w['how'], repr(op)))
    return False


def extra_values():
  """Non-container symbolic values: functor, DNA, hyper primitives."""
  @pg.functor([('x', pg.typing.Int()), ('y', pg.typing.Any())])
  def f(x, y=None):
    return (x, y)

  spec = pg.dna_spec(pg.Dict(a=pg.oneof([1, pg.oneof([2, 3])]), b=pg.manyof(2, [1, 2, 3])))
  dna = pg.DNA([(1, 0), [0, 2]], spec=spec)
  dna.set_metadata('m', [1, 2], cloneable=True)
  return [
      ('functor', f(1, pg.Dict(z=[1]))),
      ('functor-partial', f.partial(y=[1])),
      ('dna-bound', dna),
      ('dna-unbound', pg.DNA([0, [1, 2]])),
      ('oneof', pg.oneof([1, pg.Dict(x=pg.oneof([1, 2]))])),
      ('manyof', pg.manyof(2, [1, 2, 3], distinct=False, sorted=True)),
      ('floatv', pg.floatv(0.0, 1.0)),
      ('obj-with-hyper', fixtures.Node(x=pg.oneof([1, 2]), items=[pg.floatv(0., 1.)])),
      ('dnaspec', spec),
  ]


def fidelity_item(rec, item):
  name, how = item
  trace = dict(kind='fidelity', root=name, how=how)
  if name.startswith('extra:'):
    a = dict(extra_values())[name[6:]]
  else:
    a = st.make_root(name)
  before = snapshot(a) if st.is_container(a) and not name.startswith('extra:') else repr(a)
  b = do_clone(a, how)
  rec.evals += 1
  rec.trans += 1
  after = snapshot(a) if st.is_container(a) and not name.startswith('extra:') else repr(a)
  bad = False
  if after != before:
    rec.viol(f'clone-modified-original/{name}/{how}', 'cloning changed the original', trace)
    bad = True
  if name.startswith('extra:'):
    if type(a) is not type(b) or not pg.eq(a, b):
      rec.viol(f'not-equal/{name}/{how}', 'clone is not symbolically equal / same type', trace)
      bad = True
    if b is a:
      rec.viol(f'same-object/{name}/{how}', 'clone returned the original object', trace)
      bad = True
    if isinstance(a, pg.DNA):
      if (a.spec is None) != (b.spec is None) or a.metadata != b.metadata or (how in ('clone_deep', 'deepcopy') and a.metadata and b.metadata['m'] is a.metadata['m']):
        rec.viol(f'dna-binding/{name}/{how}', 'cloned DNA lost spec binding / metadata or shares metadata deeply', trace)
        bad = True
      if a.spec is not None and b.to_dict() != a.to_dict():
        rec.viol(f'dna-views/{name}/{how}', 'to_dict differs after clone', trace)
        bad = True
    if isinstance(a, pg.Object):
      topo = st.check_topology([a, b])
      for clause, text in topo:
        rec.viol(f'topology:{clause}/{name}/{how}', text, trace)
        bad = True
      if set(st.all_nodes([a])) & set(st.all_nodes([b])):
        rec.viol(f'shares-symbolic-node/{name}/{how}', 'symbolic containers shared', trace)
        bad = True
  else:
    bad = fidelity(a, b, how, rec, trace, name) or bad
  if not bad:
    rec.nt((name, how))


def run(ctx):
  ctx.rule = ('(a) fidelity: every (value, clone method) pair from the value list x {clone(deep), clone(shallow), '
              'copy.deepcopy, copy.copy}: equality, type, per-node flags/value_spec, topology, node-identity '
              'disjointness, leaf sharing rule, original unchanged; (b) independence: explicit-state BFS over mutation '
              'histories applied to either copy, the other copy\'s full snapshot must never change; '
              'distinct_nontrivial = passing (value, method) pairs + passing distinct (root, method, op) transitions')
  items = [(n, h) for n in ROOTS for h in HOWS] + [('extra:' + n, h) for n, _ in extra_values() for h in HOWS]
  ctx.pmap(fidelity_item, items)
  ctx.states += len(items)
  small = ('list', 'obj', 'tdict', 'withleaf', 'withref')
  if ctx.thorough:
    plans = [(ROOTS, HOWS, (0, 'sd', 'pl', 'MISSING'), 2, 300000),
             (small, ('clone_deep', 'clone_shallow'), (0, 'sd', 'MISSING'), 3, 40000)]
  else:
    plans = [(small, ('clone_deep', 'clone_shallow'), (0, 'sd', 'MISSING'), 2, 300000)]
  depth = []
  for roots, hows, vals, dep, cap in plans:
    sp = CloneSpace([(n, h) for n in roots for h in hows], vals)
    n = statespace.explore(ctx, sp, max_depth=dep, max_states=cap)
    depth.append(dict(roots=list(roots), methods=list(hows), values=[str(v) for v in vals], depth=dep, states=n))
  ctx.capped[:] = [c for c in ctx.capped if 'history depth bound' not in c]
  ctx.note('history_depth', depth)
  ctx.sample(dict(root='withleaf', how='clone_shallow', hist=[['', 'set', 1, ['n', 1], 'z', 0]]))


def replay(rec, data):
  if data.get('kind') == 'fidelity':
    return fidelity_item(rec, (data['root'], data['how']))
  sp = CloneSpace([tuple(data['init'])], ())
  statespace.replay_trace(sp, rec, dict(data, init=tuple(data['init'])))
