"""C11: search-space enumeration is exact (E2 + next_dna as a transition system + E3)."""
from __future__ import annotations

import pyglove as pg

from mc import choice
from mc import dnaspecs as D


def rejects(fn):
  try:
    fn()
    return None
  except Exception as e:  # pylint: disable=broad-except
    return type(e).__name__


def shape(d):
  """Coarse shape of a spec for signatures."""
  parts = []
  def rec(x, depth):
    if x[0] == 'space':
      for e in x[1]:
        rec(e, depth)
    elif x[0] == 'one':
      parts.append('one' + ('(cond)' if any(c[0] == 'space' for c in x[1]) else ''))
      for c in x[1]:
        if c[0] == 'space':
          rec(c, depth + 1)
    elif x[0] == 'many':
      parts.append(f'many[{"d" if x[3] else ""}{"s" if x[4] else ""}]' + ('(cond)' if any(c[0] == 'space' for c in x[2]) else ''))
      for c in x[2]:
        if c[0] == 'space':
          rec(c, depth + 1)
    else:
      parts.append(x[0])
  rec(d, 0)
  return '+'.join(sorted(set(parts)))


def _value_on_group(lit, c):
  """c is lit with a value put on a node that only groups the decisions of a multi-element space."""
  def find(a, b):
    if isinstance(b, tuple) and len(b) == 2 and isinstance(b[1], list) and b[1] == a and isinstance(a, list) and len(a) >= 2:
      return True
    if type(a) is type(b) and isinstance(a, (list, tuple)) and len(a) == len(b):
      diff = [(x, y) for x, y in zip(a, b) if x != y]
      return len(diff) == 1 and find(*diff[0])
    return False
  return find(lit, c)


def _value_on_root_group(d, c):
  """c puts a value on the root node of a space with two or more elements (whatever edit produced it)."""
  return (d[0] == 'space' and len(d[1]) >= 2 and isinstance(c, tuple) and len(c) == 2
          and isinstance(c[1], list) and len(c[1]) == len(d[1]))


def corruption_class(lit, c, d=None):
  if _value_on_group(lit, c) or (d is not None and _value_on_root_group(d, c)):
    return 'value-on-multi-element-space-node'
  fl, fc = D.flat(lit), D.flat(c)
  if any(isinstance(x, int) and not isinstance(x, bool) and x < 0 for x in fc):
    return 'negative-index'
  if any(not isinstance(x, int) or isinstance(x, bool) for x in fc):
    return 'non-int-value'
  if len(fc) < len(fl):
    return 'dropped-child'
  if len(fc) > len(fl):
    return 'extra-child'
  if sorted(map(repr, fc)) == sorted(map(repr, fl)):
    return 'reordered'
  return 'index-changed'


def spec_item(rec, item):
  d, tier = item
  tr = dict(kind='spec', spec=d)
  spec = D.mk(d)
  base = shape(d)
  ref = D.space_literals(d)
  refset = {D.freeze(x) for x in ref}
  rec.evals += 1
  bad = False
  if len(refset) != len(ref) or not all(D.valid_space(d, x) for x in ref):
    raise AssertionError(f'reference model is inconsistent for {d!r}')
  # --- the next_dna chain as a transition system
  chain = []
  dna = spec.first_dna()
  while dna is not None and len(chain) <= len(ref) + 2:
    chain.append(dna)
    rec.trans += 1
    dna = spec.next_dna(dna)
  lits = [D.dna_literal(x) for x in chain]
  if spec.space_size != len(ref):
    rec.viol(f'space_size/{base}', f'{d!r}: space_size={spec.space_size}, the constraints admit {len(ref)} DNAs', tr); bad = True
  if len(chain) != len(ref):
    rec.viol(f'iteration-count/{base}', f'{d!r}: next_dna chain has {len(chain)}{"+" if len(chain) > len(ref) else ""} DNAs, '
             f'the constraints admit {len(ref)}; missing e.g. {[x for x in ref if D.freeze(x) not in {D.freeze(y) for y in lits}][:2]!r}', tr); bad = True
  fl = [D.freeze(x) for x in lits]
  if len(set(fl)) != len(fl):
    rec.viol(f'iteration-duplicates/{base}', f'{d!r}: iteration yields duplicates', tr); bad = True
  extra = [x for x in lits if D.freeze(x) not in refset]
  if extra:
    rec.viol(f'iteration-yields-invalid/{base}', f'{d!r}: iteration yields {extra[0]!r} which violates the constraints', tr); bad = True
  for a, b in zip(chain, chain[1:]):
    if not (a < b) or (b < a) or a == b:
      rec.viol(f'iteration-not-increasing/{base}', f'{d!r}: {a!r} is followed by {b!r} (DNA < says {a < b})', tr); bad = True
      break
  for a, b in zip(lits, lits[1:]):
    if not D.flat(a) < D.flat(b):
      rec.viol(f'iteration-not-lexicographic/{base}', f'{d!r}: {a!r} is followed by {b!r}', tr); bad = True
      break
  if not bad and lits != ref:
    rec.viol(f'iteration-order/{base}', f'{d!r}: same set but order differs from lexicographic reference', tr); bad = True
  try:
    it = [D.dna_literal(x) for x in spec.iter_dna()]
    if it != lits:
      rec.viol(f'iter_dna-differs-from-next_dna/{base}', f'{d!r}', tr); bad = True
  except Exception as e:  # pylint: disable=broad-except
    rec.viol(f'iter_dna-raises/{base}', f'{d!r}: {type(e).__name__}: {e}', tr); bad = True
  # --- acceptance of every member, through every binding path
  for x in ref:
    for how, fn in (('validate', lambda: spec.validate(pg.DNA(D.ctor(x)))),
                    ('DNA(spec=)', lambda: pg.DNA(D.ctor(x), spec=spec)),
                    ('use_spec', lambda: pg.DNA(D.ctor(x)).use_spec(spec))):
      r = rejects(fn)
      rec.evals += 1
      if r:
        rec.viol(f'member-rejected:{how}/{base}', f'{d!r}: valid DNA {x!r} is rejected by {how}: {r}', dict(tr, dna=x)); bad = True
  # --- rejection of every one-step corruption that is not a member
  members = ref if tier == 'thorough' or len(ref) <= 6 else ref[:3] + ref[-3:]
  seen = set()
  for x in members:
    for c in D.corruptions(x):
      try:
        cd = pg.DNA(D.ctor(c))
        norm = D.dna_literal(cd)
      except Exception:  # pylint: disable=broad-except
        rec.stat('corruption:unconstructible')
        continue
      f = D.freeze(norm)
      if f in refset or f in seen:
        continue
      if D.valid_space(d, norm):
        raise AssertionError(f'reference models disagree on {norm!r} for {d!r}')
      seen.add(f)
      for how, fn in (('validate', lambda: spec.validate(pg.DNA(D.ctor(c)))),
                      ('DNA(spec=)', lambda: pg.DNA(D.ctor(c), spec=spec)),
                      ('use_spec', lambda: pg.DNA(D.ctor(c)).use_spec(spec))):
        r = rejects(fn)
        rec.evals += 1
        rec.stat(f'corruption:{how}:{r or "ACCEPTED"}')
        if r is None:
          rec.viol(f'invalid-accepted:{how}/{corruption_class(x, norm, d)}', f'{d!r}: {norm!r} (one step from {x!r}) violates '
                   f'the constraints but is accepted by {how}', dict(tr, dna=norm)); bad = True
  # --- random generation only returns members (thorough: all of them)
  got = set()
  cap = 4000 if tier == 'thorough' else 150
  for choices_, res, _ in choice.explore(lambda ch: rejects_or_lit(lambda: spec.random_dna(ch)), max_execs=cap):
    if res == 'CAP':
      rec.add('random_dna_caps', 1)
      break
    rec.evals += 1
    if isinstance(res, tuple) and res and res[0] == 'EXC':
      rec.viol(f'random_dna-raises/{base}', f'{d!r}: random_dna with choices {choices_} raises {res[1]}', dict(tr, choices=choices_)); bad = True
      continue
    if D.freeze(res) not in refset:
      rec.viol(f'random_dna-invalid/{base}', f'{d!r}: random_dna with choices {choices_} returns {res!r}', dict(tr, choices=choices_)); bad = True
    got.add(D.freeze(res))
  else:
    if got != refset and not bad:
      rec.viol(f'random_dna-unreachable-members/{base}', f'{d!r}: no random outcome produces '
               f'{[x for x in ref if D.freeze(x) not in got][:2]!r}', tr); bad = True
  # --- the sweeping generator proposes the same sequence, then stops
  try:
    algo = pg.geno.Sweeping()
    algo.setup(spec)
    sw = []
    stops = 0
    for _ in range(len(ref) + 4):          # keeps asking after the end: an exhausted sweep must stay exhausted
      try:
        sw.append(D.dna_literal(algo.propose()))
      except StopIteration:
        stops += 1
    if sw == lits and stops != 4:
      rec.viol(f'sweeping-restarts-after-end/{base}', f'{d!r}: {4 - stops} of 4 proposals after exhaustion succeeded', tr); bad = True
    if sw == lits and algo.num_proposals != len(lits):
      rec.viol(f'sweeping-count/{base}', f'{d!r}: num_proposals={algo.num_proposals} after sweeping {len(lits)} DNAs', tr); bad = True
    if sw != lits:
      rec.viol(f'sweeping-differs/{base}', f'{d!r}: Sweeping proposes {len(sw)} DNAs, iteration {len(lits)}', tr); bad = True
  except Exception as e:  # pylint: disable=broad-except
    rec.viol(f'sweeping-raises/{base}', f'{d!r}: {type(e).__name__}: {e}', tr); bad = True
  if not bad:
    rec.nt(repr(d))


def rejects_or_lit(fn):
  try:
    return D.dna_literal(fn())
  except choice.Divergence:
    raise
  except Exception as e:  # pylint: disable=broad-except
    return ('EXC', f'{type(e).__name__}: {e}')


def inf_item(rec, d):
  """Specs with float / custom points: validate and random only."""
  tr = dict(kind='inf', spec=d)
  spec = D.mk(d)
  base = shape(d)
  rec.evals += 1
  # members built by substituting representative values
  def lits(x):
    if x[0] == 'space':
      import itertools
      per = [lits(e) for e in x[1]]
      return list(per[0]) if len(per) == 1 else [list(t) for t in itertools.product(*per)]
    if x[0] == 'float':
      return [x[1], x[2], (x[1] + x[2]) / 2]
    if x[0] == 'custom':
      return ['abc']
    if x[0] == 'one':
      out = []
      for i, c in enumerate(x[1]):
        out += [i] if c[0] == 'c' else [(i, s) for s in lits(c)]
      return out
    if x[0] == 'many' and x[1] == 1:
      return lits(('one', x[2]))
    if x[0] == 'many':
      import itertools
      n, cands, distinct, srt = x[1], x[2], x[3], x[4]
      out = []
      for idx in itertools.product(range(len(cands)), repeat=n):
        if (distinct and len(set(idx)) != n) or (srt and list(idx) != sorted(idx)):
          continue
        per = [[i] if cands[i][0] == 'c' else [(i, s) for s in lits(cands[i])] for i in idx]
        out += [list(t) for t in itertools.product(*per)]
      return out
  for x in lits(d):
    assert D.valid_space(d, x), (d, x)
    for how, fn in (('validate', lambda: spec.validate(pg.DNA(D.ctor(x)))), ('DNA(spec=)', lambda: pg.DNA(D.ctor(x), spec=spec))):
      r = rejects(fn)
      if r:
        rec.viol(f'member-rejected:{how}/{base}', f'{d!r}: valid DNA {x!r} rejected: {r}', dict(tr, dna=x))
    for c in corrupt_floats(x):
      if D.valid_space(d, c):
        continue
      for how, fn in (('validate', lambda: spec.validate(pg.DNA(D.ctor(c)))), ('DNA(spec=)', lambda: pg.DNA(D.ctor(c), spec=spec))):
        try:
          r = rejects(fn)
        except Exception:  # pylint: disable=broad-except
          r = 'ctor'
        if r is None:
          cls = 'children-under-float' if _has_float_children(c) else 'float-or-custom'
          rec.viol(f'invalid-accepted:{how}/{cls}', f'{d!r}: {c!r} accepted by {how}', dict(tr, dna=c))
  for choices_, res, _ in choice.explore(lambda ch: rejects_or_lit(lambda: spec.random_dna(ch)), max_execs=500):
    if res == 'CAP':
      break
    rec.evals += 1
    if isinstance(res, tuple) and res and res[0] == 'EXC':
      if 'custom' in base:
        continue       # a custom decision point needs a user supplied random_dna_fn
      rec.viol(f'random_dna-raises/{base}', f'{d!r}: choices {choices_}: {res[1]}', dict(tr, choices=choices_))
    elif not D.valid_space(d, res):
      rec.viol(f'random_dna-invalid/{base}', f'{d!r}: random_dna with choices {choices_} returns {res!r}', dict(tr, choices=choices_))
  rec.nt(repr(d))
  rec.trans += 1


def _has_float_children(c):
  if isinstance(c, tuple) and len(c) == 2 and isinstance(c[0], float):
    return True
  return isinstance(c, (list, tuple)) and any(_has_float_children(e) for e in c)


def corrupt_floats(x):
  out = []
  def rec_(y, rebuild):
    if isinstance(y, float):
      for z in (y + 1.5, y - 1.5, int(y), 'a', (y, 1), (y, [0, 0])):      # out of range, wrong type, children under a float
        out.append(rebuild(z))
    elif isinstance(y, str):
      out.append(rebuild(1))
    elif isinstance(y, (list, tuple)):
      kind = type(y)
      seq = list(y)
      for i, c in enumerate(seq):
        rec_(c, lambda z, i=i: rebuild(kind(seq[:i] + [z] + seq[i + 1:])))
  rec_(x, lambda z: z)
  return out


def run(ctx):
  ctx.rule = ('every DNASpec of the grammar (spaces of 1-2 elements; oneof / manyof with every distinct x sorted mode, 1-3 '
              'choices, 1-4 candidates; conditional sub-spaces nested up to 2 deep) with at most the stated number of DNAs: '
              'the next_dna chain from first_dna is walked to its end and compared with an independent recursive generator '
              'of the valid set (count = space_size, no duplicates, same set, increasing under DNA < and lexicographically, '
              'same order); validate / DNA(spec=) / use_spec accept every member and reject every one-step corruption; '
              'random_dna explored over all choice sequences; Sweeping proposes the same sequence; '
              'distinct_nontrivial = specs that passed every clause')
  max_size = 200 if ctx.thorough else 40
  g = D.grammar(max_size, 'thorough' if ctx.thorough else 'quick')
  ctx.pmap(spec_item, [(d, ctx.tier) for d in g], chunk=2)
  ctx.pmap(inf_item, D.infinite_specs(), chunk=1)
  ctx.states += len(g) + len(D.infinite_specs())
  ctx.note('specs', len(g))
  ctx.note('max_space_size', max_size)
  ctx.note('total_dnas', sum(D.size(d) for d in g))
  ctx.sample(dict(spec=g[len(g) // 2], valid_dnas=D.space_literals(g[len(g) // 2])[:4]))
  ctx.assumptions += ['real-valued decision points: bounds, midpoint and out-of-range representatives only',
                      'random_dna for floats is answered from 4 representatives of random()']


def replay(rec, data):
  from mc import statespace
  d = statespace._tup(data['spec'])
  if data.get('kind') == 'inf':
    inf_item(rec, d)
  else:
    spec_item(rec, (d, 'thorough'))
