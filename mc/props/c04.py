"""C04: value-spec algebra (E2: all specs of the grammar, all pairs, boundary-complete pool)."""
from __future__ import annotations

import copy

import pyglove as pg

from mc import specs as S

REJ = (TypeError, ValueError, KeyError)


def kind(d):
  core, noneable, has_default, _, frozen, _ = S.strip(d)
  k = core[0]
  return k + ('?' if noneable else '') + ('=d' if has_default else '') + ('!' if frozen else '')


def kind2(d):
  """kind with element kinds for containers (signature granularity)."""
  core = S.strip(d)[0]
  k = kind(d)
  if core[0] in ('list', 'vtuple', 'ddict'):
    e = core[1] if core[0] != 'ddict' else core[2]
    return f'{k}[{S.strip(e)[0][0]}]'
  return k


def has_frozen(d):
  if not isinstance(d, tuple):
    return False
  if d and d[0] == 'frozen':
    return True
  return any(has_frozen(e) for e in d if isinstance(e, tuple))


def min_size_gap(a, b):
  """True if somewhere a List in `a` demands a larger min_size than its counterpart in `b`."""
  ca, cb = S.strip(a)[0], S.strip(b)[0]
  if ca[0] == 'union':
    return any(min_size_gap(c, b) for c in ca[1])
  if cb[0] == 'union':
    return any(min_size_gap(a, c) for c in cb[1])
  if ca[0] != cb[0]:
    return False
  if ca[0] == 'list':
    return ca[2] > cb[2] or min_size_gap(ca[1], cb[1])
  if ca[0] == 'vtuple':
    return min_size_gap(ca[1], cb[1])
  if ca[0] == 'ddict':
    return min_size_gap(ca[2], cb[2])
  if ca[0] == 'tuple' and len(ca[1]) == len(cb[1]):
    return any(min_size_gap(x, y) for x, y in zip(ca[1], cb[1]))
  if ca[0] == 'dict':
    db = dict(cb[1])
    return any(k in db and min_size_gap(e, db[k]) for k, e in ca[1])
  return False


def enum_extends_number(a, b):
  """True if somewhere an Enum in `a` stands where `b` has an Int/Float (Enum may extend a number spec)."""
  ca, cb = S.strip(a)[0], S.strip(b)[0]
  if ca[0] == 'enum' and cb[0] in ('int', 'float'):
    return True
  if ca[0] in ('list', 'vtuple') and cb[0] in ('list', 'vtuple'):
    return enum_extends_number(ca[1], cb[1])
  if ca[0] == 'vtuple' and cb[0] == 'tuple':
    return any(enum_extends_number(ca[1], y) for y in cb[1])
  if ca[0] == 'tuple' and cb[0] == 'vtuple':
    return any(enum_extends_number(x, cb[1]) for x in ca[1])
  if ca[0] == 'ddict' and cb[0] == 'ddict':
    return enum_extends_number(ca[2], cb[2])
  if ca[0] == 'tuple' and cb[0] == 'tuple' and len(ca[1]) == len(cb[1]):
    return any(enum_extends_number(x, y) for x, y in zip(ca[1], cb[1]))
  if ca[0] == 'dict' and cb[0] == 'dict':
    db = dict(cb[1])
    return any(k in db and enum_extends_number(e, db[k]) for k, e in ca[1])
  if ca[0] == 'dict' and cb[0] == 'ddict':
    return any(enum_extends_number(e, cb[2]) for _, e in ca[1])
  return False


def normal_form_accepted(first_d, second_d, tok):
  """The value as the second spec stores it (defaults filled in, typed containers re-specified) is accepted by the first."""
  try:
    w = S.mk(second_d).apply(S.val(tok))
    S.mk(first_d).apply(w)
    return True
  except REJ:
    return False


def dict_keys(core):
  if core[0] == 'dict':
    return {k for k, _ in core[1]}, None
  if core[0] == 'ddict':
    return set(), core[1]
  return None, None


def accepts(spec, tok):
  try:
    return ('ok', spec.apply(S.val(tok)))
  except REJ as e:
    return ('rej', type(e).__name__)


# Targeted spec pairs beyond the depth-2 grammar: a default under an inherited range, a frozen container default, a constant
# key under a base's dynamic key, frozen / Bool / noneable candidates of unions.
EXTRA_SPECS = [
    ('default', ('int', None, None), 5), ('int', None, 3),
    ('frozen', ('list', ('int', None, None), 0, None), ('L', 10)), ('list', ('int', None, 3), 0, None),
    ('dict', (('k1', ('int', None, None)),)), ('ddict', 'k.*', ('int', None, 3)),
    ('union', (('frozen', ('int', None, None), 1), ('str',))),
    ('union', (('int', 2, None), ('bool',))), ('bool',),
    ('union', (('int', None, None), ('str',), ('float', None, None))), ('union?', (('int', None, None), ('str',))),
]


def universe(ctx):
  depth = 2
  g = S.grammar(depth, wide=ctx.thorough)
  g = g + [d for d in EXTRA_SPECS if d not in g]
  toks = []
  seen = set()
  for d in g:
    for t in S.pool(d):
      if repr(t) not in seen:          # by text: True and 1 (equal, same hash) are different candidates
        seen.add(repr(t))
        toks.append(t)
  return g, toks


G = None
P = None
BITS = None


def spec_item(rec, i):
  """Per-spec laws L1, L2 and the acceptance bitset."""
  d = G[i]
  trace = dict(kind='spec', spec=d)
  bits = []
  base = kind2(d)
  for t in P:
    s = S.mk(d)
    before = repr(s)
    r = accepts(s, t)
    rec.evals += 1
    bits.append(r[0] == 'ok')
    if repr(s) != before or s != S.mk(d):
      rec.viol(f'L1-apply-changed-spec/{base}', f'apply({t!r}) changed the spec {d!r}: {before} -> {s!r}', dict(trace, value=t))
    if r[0] == 'ok':
      w = r[1]
      try:
        w2 = S.mk(d).apply(w)
        if not S.plain_eq(w2, w):
          rec.viol(f'L1-not-idempotent/{base}', f'spec {d!r}: apply({t!r})={w!r} but applying again gives {w2!r}', dict(trace, value=t))
      except REJ as e:
        rec.viol(f'L1-result-rejected/{base}', f'spec {d!r}: apply({t!r})={w!r} is then rejected: {type(e).__name__}', dict(trace, value=t))
  s = S.mk(d)
  if s.has_default and not (pg.MISSING_VALUE == s.default) and 'MISSING_VALUE' not in repr(s.default):
    dv = s.default
    try:
      r = S.mk(d).apply(copy.deepcopy(dv))
      if not S.plain_eq(r, dv):
        rec.viol(f'L2-default-not-fixpoint/{base}', f'spec {d!r}: default {dv!r} maps to {r!r}', trace)
    except REJ as e:
      rec.viol(f'L2-default-rejected/{base}', f'spec {d!r} rejects its own default {dv!r}: {type(e).__name__}', trace)
  rec.trans += 1
  return bits


def project(v, keys):
  return {k: x for k, x in v.items() if k in keys}


def pair_item(rec, i):
  """L3 / L4 for spec i against every other spec."""
  a_d = G[i]
  abits = BITS[i]
  for j, b_d in enumerate(G):
    bbits = BITS[j]
    a, b = S.mk(a_d), S.mk(b_d)
    rec.trans += 1
    try:
      comp = a.is_compatible(b)
    except Exception as e:  # pylint: disable=broad-except
      rec.viol(f'L3-is_compatible-raises/{kind2(a_d)}~{kind2(b_d)}', f'{type(e).__name__}: {e}', dict(kind='pair', a=a_d, b=b_d))
      comp = False
    if comp:
      rec.stat('compatible')
      bad = [P[k] for k in range(len(P)) if bbits[k] and not abits[k] and P[k] != 'MISSING']
      if bad:
        # the law is about the values the second spec *yields*: a value it only accepts by completing it (a default filled
        # in, a typed list re-specified) counts in its stored form
        n0 = len(bad)
        bad = [t for t in bad if not normal_form_accepted(a_d, b_d, t)]
        rec.evals += n0
        if n0 != len(bad):
          rec.stat('L3-accepted-in-normal-form')
      if bad:
        cause = ('first-spec-is-frozen' if has_frozen(a_d) else
                 'list-min_size-ignored' if min_size_gap(a_d, b_d) else f'{kind2(a_d)}~{kind2(b_d)}')
        rec.viol(f'L3-compatible-but-narrower/{cause}',
                 f'{a_d!r}.is_compatible({b_d!r}) is True but value {bad[0]!r} is accepted by the second and rejected by the '
                 f'first ({len(bad)} such values)', dict(kind='pair', a=a_d, b=b_d, value=bad[0]))
      else:
        rec.nt(('L3', i, j))
    # L4: child a extends base b
    c = S.mk(a_d)
    try:
      c2 = c.extend(S.mk(b_d))
    except REJ:
      rec.stat('extend-refused')
      continue
    except Exception as e:  # pylint: disable=broad-except
      rec.viol(f'L4-extend-raises/{kind2(a_d)}~{kind2(b_d)}', f'{type(e).__name__}: {e}', dict(kind='pair', a=a_d, b=b_d))
      continue
    rec.stat('extend-ok')
    ca, cb = S.strip(a_d)[0], S.strip(b_d)[0]
    bkeys, bregex = dict_keys(cb)
    akeys, aregex = dict_keys(ca)
    dictlike = bkeys is not None and akeys is not None
    adds_keys = dictlike and (not akeys <= bkeys or (aregex is not None and aregex != bregex))

    def base_accepts_projection(v):
      import re
      proj = {k: x for k, x in v.items() if k in bkeys or (bregex and isinstance(k, str) and re.fullmatch(bregex, k))}
      try:
        S.mk(b_d).apply(proj)
        return True
      except REJ:
        return False

    bad = None
    for k, t in enumerate(P):
      if t == 'MISSING':
        continue       # the absence marker is not a candidate value
      fresh = c2.clone(deep=True) if hasattr(c2, 'clone') else copy.deepcopy(c2)
      r = accepts(fresh, t)
      rec.evals += 1
      if r[0] != 'ok':
        continue
      if bbits[k]:
        continue
      v = S.val(t)
      if dictlike and isinstance(v, dict) and base_accepts_projection(v):
        continue        # only the fields they share are compared
      # the value as the extended spec stores it (defaults filled in, typed containers re-specified)
      try:
        w = r[1]
        if dictlike and isinstance(w, dict):
          if base_accepts_projection(w):
            rec.stat('L4-accepted-in-normal-form')
            continue
        else:
          S.mk(b_d).apply(w)
          rec.stat('L4-accepted-in-normal-form')
          continue
      except REJ:
        pass
      bad = t
      break
    if bad is not None:
      # a typed list whose plain contents the base accepts is refused only because of the spec it carries: that is the
      # compatibility gap between Enum and the number spec it extends, whatever else the specs contain
      # a constant key of the extension that the base only covers through a dynamic key keeps its own (looser) rules
      const_under_dynamic = (ca[0] == 'dict' and cb[0] == 'ddict' and isinstance(bad, tuple) and bad and bad[0] == 'D'
                             and any(__import__('re').fullmatch(cb[1], k) for k, _ in ca[1] if isinstance(k, str)))
      carried = (isinstance(bad, tuple) and bad and bad[0] == 'TL' and enum_extends_number(a_d, b_d)
                 and accepts(S.mk(b_d), ('L',) + tuple(bad[2:]))[0] == 'ok')
      cause = ('const-key-under-base-dynamic-key' if const_under_dynamic else
               'enum-extends-number' if carried else
               'frozen-value-not-revalidated' if has_frozen(a_d) else
               'enum-extends-number' if enum_extends_number(a_d, b_d) else f'{kind2(a_d)}~{kind2(b_d)}')
      rec.viol(f'L4-extended-accepts-more/{cause}',
               f'{a_d!r}.extend({b_d!r}) succeeded giving {c2!r}, which accepts {bad!r} that the base rejects',
               dict(kind='pair', a=a_d, b=b_d, value=bad))
      continue
    # the extension's own default (inherited constraints included) is acceptable to it
    try:
      if c2.has_default and not (pg.MISSING_VALUE == c2.default) and 'MISSING_VALUE' not in repr(c2.default) and not c2.frozen:
        probe = c2.clone(deep=True) if hasattr(c2, 'clone') else copy.deepcopy(c2)
        try:
          probe.apply(copy.deepcopy(c2.default))
        except REJ as e:
          rec.viol(f'L2-extension-rejects-its-default/{kind2(a_d)}~{kind2(b_d)}',
                   f'{a_d!r}.extend({b_d!r}) = {c2!r} rejects its own default {c2.default!r}: {type(e).__name__}', dict(kind='pair', a=a_d, b=b_d))
          continue
    except Exception:  # pylint: disable=broad-except
      pass
    try:
      if not adds_keys and not S.mk(b_d).is_compatible(c2):
        cause = ('enum-extends-number' if enum_extends_number(a_d, b_d) else
                 'frozen' if has_frozen(a_d) or has_frozen(b_d) else f'{kind2(a_d)}~{kind2(b_d)}')
        rec.viol(f'L4-base-not-compatible-with-extension/{cause}',
                 f'{a_d!r}.extend({b_d!r}) = {c2!r} but base.is_compatible(extended) is False', dict(kind='pair', a=a_d, b=b_d))
        continue
    except Exception:  # pylint: disable=broad-except
      pass
    rec.nt(('L4', i, j))


def setup(ctx):
  global G, P, BITS
  G, P = universe(ctx)


def run(ctx):
  global BITS
  setup(ctx)
  ctx.rule = ('all value specs of the grammar (mc/specs.py, nesting depth 2) x boundary-complete value pool: L1 idempotent '
              'apply + spec unchanged, L2 default is a fixpoint; all ordered pairs of specs: L3 is_compatible => acceptance '
              'containment over the pool, L4 successful extend => extended accepts no more than base (shared fields for '
              'dicts) and base.is_compatible(extended); acceptance decided by the real apply(); distinct_nontrivial = '
              'pairs that are compatible / extendable and passed')
  res = ctx.pmap(spec_item, list(range(len(G))))
  BITS = [None] * len(G)
  for i, bits in res:
    BITS[i] = bits
  if any(b is None for b in BITS):
    return
  ctx.pmap(pair_item, list(range(len(G))), chunk=2)
  ctx.states += len(G)
  ctx.note('specs', len(G))
  ctx.note('pool_values', len(P))
  ctx.note('pairs', len(G) ** 2)
  ctx.assumptions += ['Str regex constraints are outside the grammar (documented as unchecked)',
                      'bounds drawn from {0,1,2}; the pool holds a representative of every cell of every atomic predicate '
                      'a grammar spec can test, so L3/L4 are decided exactly for grammar specs up to nesting depth 2']
  ctx.sample(dict(a=['list', ['int', 0, 2], 1, 2], b=['noneable', ['list', ['int', None, None], 0, None]],
                  laws=['L3', 'L4'], pool_example=['L', 0, 0, 0]))


def replay(rec, data):
  from mc import statespace
  global G, P, BITS
  class C: thorough = False
  if data['kind'] == 'spec':
    G = [statespace._tup(data['spec'])]
    _, P = universe(C)
    spec_item(rec, 0)
  else:
    a, b = statespace._tup(data['a']), statespace._tup(data['b'])
    G = [a, b]
    _, P = universe(C)
    from mc.runner import Rec
    BITS = [spec_item(Rec(), 0), spec_item(Rec(), 1)]
    G = [a, b]
    pair_item(rec, 0)
