"""C15: search algorithms recover their state from history at every crash point (E5 fault enumeration)."""
from __future__ import annotations

import itertools

import os

import pyglove as pg

from mc import dnaspecs as D

M = pg.evolution.mutators
E = pg.evolution
C = D.C

SPACES = {
    'small': ('space', (('one', (C, C, C)), ('one', (C, C)))),
    'multi': ('space', (('many', 2, (C, C, C), True, False), ('one', (C, C)))),
    'wide': ('space', (('one', (C, C, C, C)), ('one', (C, C, C, C)), ('one', (C, C, C)))),
}


def mean(rs):
  rs = [r for r in rs if r is not None]
  return sum(rs) / len(rs) if rs else 0.0


ALGOS = {
    # name: (factory, history_determined, multi_objective, spaces)
    'sweeping': (lambda: pg.geno.Sweeping(), True, False, ('small', 'multi')),
    'random(seed=1)': (lambda: pg.geno.Random(seed=1), True, False, ('small', 'multi')),
    'random(seed=0)': (lambda: pg.geno.Random(seed=0), True, False, ('small',)),
    'dedup(sweeping)': (lambda: pg.geno.Deduping(pg.geno.Sweeping()), True, False, ('small',)),
    'dedup(random(seed=1))': (lambda: pg.geno.Deduping(pg.geno.Random(seed=1)), True, False, ('small', 'multi')),
    'dedup(random(seed=0),max_duplicates=2)': (lambda: pg.geno.Deduping(pg.geno.Random(seed=0), max_duplicates=2), True, False, ('small',)),
    'regularized_evolution': (lambda: E.regularized_evolution(M.Uniform(seed=1), population_size=4, tournament_size=2, seed=1),
                              False, False, ('wide', 'multi')),
    'hill_climb': (lambda: E.hill_climb(M.Uniform(seed=1), batch_size=2, init_population_size=2, seed=1), False, False, ('wide',)),
    'nsga2': (lambda: E.nsga2(M.Uniform(seed=1), population_size=2, seed=1), False, True, ('wide',)),
    'neat': (lambda: E.neat(M.Uniform(seed=1), population_size=3, seed=1), False, False, ('wide',)),
    'dedup(regularized_evolution)': (lambda: pg.geno.Deduping(
        E.regularized_evolution(M.Uniform(seed=1), population_size=4, tournament_size=2, seed=1)), False, False, ('wide',)),
    'dedup(hill_climb,auto_reward)': (lambda: pg.geno.Deduping(
        E.hill_climb(M.Uniform(seed=1), batch_size=2, init_population_size=2, seed=1), auto_reward_fn=mean), False, False, ('wide',)),
}


def reward_of(dna, multi):
  nums = dna.to_numbers()
  r = float(sum(n * (i + 1) for i, n in enumerate(nums))) + 0.5 * nums[0]
  return (r, -float(nums[-1])) if multi else r


class Run:
  """A live run driven by a schedule: proposal i is fed back after proposal i + lag (optionally swapped pairwise)."""

  def __init__(self, algo, spec, multi, lag, swap):
    self.algo = algo
    self.spec = spec
    self.multi = multi
    self.lag = lag
    self.swap = swap
    self.proposed = []           # DNA objects, in proposal order
    self.at_proposal = []        # JSON of each DNA right after it was proposed
    self.rewarded = {}           # index -> reward
    self.stopped = False

  def _feedback(self, i):
    if i in self.rewarded or i >= len(self.proposed) or i < 0:
      return
    dna = self.proposed[i]
    r = dna.metadata.get('reward', None) if 'reward' in dna.metadata else None
    if r is None:
      r = reward_of(dna, self.multi)
    self.algo.feedback(dna, r)
    self.rewarded[i] = r

  def step(self):
    """One proposal followed by the feedbacks that are due."""
    try:
      dna = self.algo.propose()
    except StopIteration:
      self.stopped = True
      return None
    self.proposed.append(dna)
    self.at_proposal.append(pg.to_json_str(dna))
    k = len(self.proposed)
    due = [i for i in range(k - self.lag) if i not in self.rewarded]
    if self.swap and len(due) >= 1 and self.lag >= 2:
      # deliver the newer one first: feedback order differs from proposal order
      newer = k - self.lag
      if newer < k and newer not in self.rewarded and newer >= 0:
        due = [newer] + due
    for i in due:
      self._feedback(i)
    return dna


def observe(algo):
  obs = dict(num_proposals=algo.num_proposals, num_feedbacks=algo.num_feedbacks)
  inner = algo
  if isinstance(algo, pg.geno.Deduping):
    inner = algo.generator
  if isinstance(inner, E.Evolution):
    obs['population'] = [(x.to_numbers(), E.get_fitness(x)) for x in inner.population]
    obs['num_generations'] = inner.num_generations
    if inner is not algo:
      obs['inner_counts'] = (inner.num_proposals, inner.num_feedbacks)
  return obs


def proposal_view(dna, determined):
  if dna is None:
    return 'STOP'
  if determined:
    return (dna.to_numbers(), 'auto-reward' if 'reward' in dna.metadata else '')
  # For stochastic algorithms only the phase of the next proposals is a function of the recovered state
  # (a batch that was half proposed at the crash is not part of the history, so generation ids may differ);
  # the members of the INITIAL population, however, come from a seeded generator that is replayed from the history
  # (in-flight proposals included), so they are compared exactly.
  init = dna.metadata.get('initial_population')
  return dict(initial_population=init, dna=dna.to_numbers() if init else None)


def case_item(rec, item):
  aname, sname, n_max, lag, swap, persist, tier = item
  factory, determined, multi, _ = ALGOS[aname]
  d = SPACES[sname]
  m_cont = 3
  for k in range(0, n_max + 1):
    rec.evals += 1
    tr = dict(kind='crash', algo=aname, space=sname, k=k, lag=lag, swap=swap, persist=persist)
    base = f'{aname}'
    # --- the uninterrupted run up to the crash point
    spec = D.mk(d)
    live = Run(factory(), spec, multi, lag, swap)
    live.algo.setup(spec)
    for _ in range(k):
      if live.step() is None:
        break
    if len(live.proposed) < k:
      continue      # the space is exhausted before k proposals
    live_obs = observe(live.algo)
    # --- persist the history through JSON
    history = []
    for i, dna in enumerate(live.proposed):
      js = live.at_proposal[i] if persist == 'at-proposal' else pg.to_json_str(dna)
      history.append((pg.from_json_str(js), live.rewarded.get(i)))
    # --- a fresh instance recovers
    spec2 = D.mk(d)
    rec_algo = factory()
    rec_algo.setup(spec2)
    try:
      rec_algo.recover(history)
    except Exception as e:  # pylint: disable=broad-except
      rec.viol(f'recover-raises:{type(e).__name__}/{base}', f'k={k}: {e}', tr)
      continue
    rec_obs = observe(rec_algo)
    in_order = not swap
    for key in live_obs:
      a, b = live_obs[key], rec_obs.get(key)
      if key == 'population' and not in_order:
        a, b = sorted(map(repr, a)), sorted(map(repr, b))
      if key == 'inner_counts' and a is not None and b is not None and a[1] == b[1] and b[0] <= a[0]:
        # draws of the inner generator that the wrapper rejected as duplicates are not proposals of the search: they are not
        # in the history, so the recovered inner generator may have proposed fewer (never more, and the same feedbacks)
        continue
      if a != b:
        rec.viol(f'state:{key}/{base}', f'crash after {k} proposals ({len(live.rewarded)} feedbacks): uninterrupted {key}={a!r}, '
                 f'recovered {key}={b!r}', tr)
    # --- continue both with the same schedule
    rrun = Run(rec_algo, spec2, multi, lag, swap)
    rrun.proposed = [h[0] for h in history]
    rrun.at_proposal = [pg.to_json_str(h[0]) for h in history]
    rrun.rewarded = {i: r for i, (_, r) in enumerate(history) if r is not None}
    cont_live, cont_rec = [], []
    for _ in range(m_cont):
      try:
        cont_live.append(proposal_view(live.step(), determined))
      except Exception as e:  # pylint: disable=broad-except
        cont_live.append(f'EXC:{type(e).__name__}')
      try:
        cont_rec.append(proposal_view(rrun.step(), determined))
      except Exception as e:  # pylint: disable=broad-except
        cont_rec.append(f'EXC:{type(e).__name__}')
    if not determined:
      # a stochastic continuation may fail on one side only (e.g. an empty species): compare the common prefix of proposals
      n = 0
      while n < m_cont and isinstance(cont_live[n], dict) and isinstance(cont_rec[n], dict):
        n += 1
      cont_live, cont_rec = cont_live[:n], cont_rec[:n]
    if cont_live != cont_rec:
      what = 'proposals' if determined else 'phase of the next proposals'
      rec.viol(f'continuation/{base}', f'crash after {k} proposals ({len(history)} in history, '
               f'{sum(1 for h in history if h[1] is not None)} rewarded): uninterrupted run continues with {cont_live!r}, '
               f'recovered run with {cont_rec!r} ({what})', tr)
    else:
      rec.nt((aname, sname, k, lag, swap, persist))
    rec.trans += 1


# ---------------------------------------------------------------------------
# recovery in a NEW process (what a crash really is): the history goes through a file, the recovering interpreter is fresh
# ---------------------------------------------------------------------------
CHILD_CODE = """
import json, sys
sys.path.insert(0, '/verif')
import pyglove as pg
from mc import dnaspecs as D
from mc.props import c15
job = json.load(open(sys.argv[1]))
factory, determined, multi, _ = c15.ALGOS[job['algo']]
spec = D.mk(c15.SPACES[job['space']])
algo = factory()
algo.setup(spec)
history = [(pg.from_json_str(js), r if not isinstance(r, list) else tuple(r)) for js, r in job['history']]
algo.recover(history)
counts = [algo.num_proposals, algo.num_feedbacks]
run = c15.Run(algo, spec, multi, job['lag'], False)
run.proposed = [h[0] for h in history]
run.at_proposal = [pg.to_json_str(h[0]) for h in history]
run.rewarded = {i: r for i, (_, r) in enumerate(history) if r is not None}
out = []
for _ in range(job['more']):
  try:
    out.append(c15.proposal_view(run.step(), True))
  except Exception as e:
    out.append('EXC:' + type(e).__name__)
print('RESULT ' + json.dumps(dict(cont=out, counts=counts)))
"""


def xproc_item(rec, item):
  import json
  import subprocess
  import sys
  import tempfile
  aname, sname, k, lag = item
  factory, determined, multi, _ = ALGOS[aname]
  spec = D.mk(SPACES[sname])
  live = Run(factory(), spec, multi, lag, False)
  live.algo.setup(spec)
  for _ in range(k):
    if live.step() is None:
      break
  if len(live.proposed) < k:
    return
  history = [(pg.to_json_str(dna), live.rewarded.get(i)) for i, dna in enumerate(live.proposed)]
  counts = [live.algo.num_proposals, live.algo.num_feedbacks]
  more = 3
  cont_live = []
  for _ in range(more):
    try:
      cont_live.append(proposal_view(live.step(), True))
    except Exception as e:  # pylint: disable=broad-except
      cont_live.append('EXC:' + type(e).__name__)
  tr = dict(kind='xproc', algo=aname, space=sname, k=k, lag=lag)
  with tempfile.NamedTemporaryFile('w', suffix='.json', delete=False) as f:
    json.dump(dict(algo=aname, space=sname, lag=lag, more=more, history=history), f)
    path = f.name
  try:
    p = subprocess.run([sys.executable, '-c', CHILD_CODE, path], capture_output=True, text=True, timeout=300,
                       env=dict(os.environ, PYTHONHASHSEED='0', PYTHONPATH='/verif'))
  finally:
    os.unlink(path)
  rec.evals += 1
  rec.trans += 1
  line = [l for l in p.stdout.splitlines() if l.startswith('RESULT ')]
  if p.returncode != 0 or not line:
    rec.viol(f'recovery-in-new-process-fails/{aname}', f'k={k} lag={lag}: exit {p.returncode}: {p.stderr[-300:]}', tr)
    return
  got = json.loads(line[0][7:])
  want = json.loads(json.dumps(dict(cont=cont_live, counts=counts)))
  if got != want:
    rec.viol(f'recovery-in-new-process-differs/{aname}', f'crash after {k} proposals (lag {lag}), history through a file, recovery in a fresh '
             f'interpreter: uninterrupted run has counts {want["counts"]} and continues with {want["cont"]!r}; the recovered process has '
             f'{got["counts"]} and continues with {got["cont"]!r}', tr)
  else:
    rec.nt(('xproc', aname, sname, k, lag))


def items(tier):
  out = []
  n_max = 8 if tier == 'thorough' else 6
  for aname, (_, determined, multi, spaces) in ALGOS.items():
    for sname in spaces:
      for lag, swap in ((0, False), (1, False), (2, False), (2, True)):
        for persist in ('latest', 'at-proposal'):
          if tier != 'thorough' and swap and persist == 'at-proposal':
            continue
          out.append((aname, sname, n_max, lag, swap, persist, tier))
  return out


def xproc_items(tier):
  out = []
  for aname, (_, determined, _, spaces) in ALGOS.items():
    if not determined:
      continue
    for k in ((2, 4) if tier != 'thorough' else (1, 2, 3, 4, 5, 6)):
      for lag in (0, 1):
        out.append((aname, spaces[0], k, lag))
  return out


def run(ctx):
  ctx.pmap(xproc_item, xproc_items(ctx.tier), chunk=1)
  ctx.level = 'fault_enumeration'
  ctx.rule = ('for every algorithm configuration (Sweeping, seeded Random incl. seed 0, Deduping wrappers, regularized '
              'evolution, hill climb, NSGA2, NEAT, Deduping over evolution with/without auto reward) x space x feedback lag '
              '0..2 (and out-of-order feedback) x persistence moment (DNA as stored at proposal time / as left at the crash): '
              'every crash point k = 0..N is executed: the history goes through to_json_str/from_json_str, a fresh instance '
              'recovers, counts / population with fitness / generations are compared with the uninterrupted run and both are '
              'continued for 3 more steps (exact proposals for history-determined algorithms, phase and generation tags '
              'otherwise); distinct_nontrivial = crash cases whose state and continuation agree')
  its = items(ctx.tier)
  ctx.pmap(case_item, its, chunk=1)
  ctx.states += len(its)
  ctx.note('configurations', len(its))
  ctx.note('crash_points_per_configuration', (8 if ctx.thorough else 6) + 1)
  ctx.sample(dict(algo='dedup(random(seed=1))', space='small', lag=1, crash_points='0..6', persist='latest'))
  ctx.assumptions += ['the persisted history holds every proposed DNA in proposal order with its metadata and its reward or None',
                      'stochastic continuations of evolutionary algorithms are compared by phase / generation / proposal id only',
                      'with out-of-order feedback populations are compared as multisets']


def replay(rec, data):
  if data.get('kind') == 'xproc':
    return xproc_item(rec, (data['algo'], data['space'], data['k'], data['lag']))
  case_item(rec, (data['algo'], data['space'], data['k'], data['lag'], data['swap'], data['persist'], 'thorough'))
