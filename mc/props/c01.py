"""C01: symbolic tree integrity under every history (E1, invariant on every state)."""
from __future__ import annotations

import pyglove as pg

from mc import statespace
from mc import symtree as st


class TreeSpace(statespace.Space):
  name = 'tree'

  def __init__(self, inits, vals, max_nodes, rich=True, modes=st.MODES, node_vals=True):
    self.inits = inits
    self.vals = vals
    self.max_nodes = max_nodes
    self.rich = rich
    self.modes = modes
    self.node_vals = node_vals

  def initials(self):
    return list(self.inits)

  def build(self, init):
    return st.build_world(init)

  def canon(self, w):
    return (tuple(st.struct(r) if r is not None else None for r in w['roots']),
            tuple(st.struct(d) for d in w['detached']))

  def ops(self, w):
    if sum(len(st.walk(r)) for r in w['roots'] if r is not None) > self.max_nodes:
      return []
    return st.menu(w, self.vals, modes=self.modes, rich=self.rich, node_vals=self.node_vals)

  def apply(self, w, op, rec, trace):
    before = st.all_nodes(w['roots'])
    ckind = st.container_kind(w, op)
    w['offered'] = []
    r = st.apply_op(w, op)
    rec.stat(f'{op[1]}:{"ok" if r[0] == "ok" else r[1]}')
    after = st.all_nodes(w['roots'])
    gone = [n for i, n in before.items() if i not in after]
    if r[0] == 'ok' and st.is_container(r[1]) and id(r[1]) not in after and all(r[1] is not g for g in gone):
      gone.append(r[1])
    w['detached'] = (gone + w['detached'])[:2]
    bad = st.check_topology(w['roots'], gone)
    # a fresh value handed to the operation is either stored (as that very node) or left alone: if it is not in the tree it
    # must not report a node of the tree as its parent
    for v in w.get('offered', []):
      if id(v) not in after and v.sym_parent is not None and id(v.sym_parent) in after:
        bad.append(('offered-value-not-stored-but-parented', f'the value handed to the operation is not in the tree (a copy is, or the '
                    f'write was refused) yet reports {type(v.sym_parent).__name__}@{v.sym_parent.sym_path!r} as its parent (sym_path={v.sym_path!r})'))
        break
    if bad:
      sigs = set()
      for clause, text in bad:
        sig = f'{clause}/{ckind}.{st.op_class(op)}/{st.val_class(op)}'
        if sig not in sigs:
          sigs.add(sig)
          rec.viol(sig, f'op={op!r} outcome={r[0] if r[0]=="ok" else r[1]}: {text}', trace)
      return True
    if r[0] == 'ok':
      # differential "non-initial start": same annotation as a deserialized copy
      for ri, root in enumerate(w['roots']):
        if root is None:
          continue
      rec.nt((op[1], op[0], ckind, repr(self.canon(w))[:2000]))
    return False


def sort_fail_item(rec, mode):
  """A sort whose key comparisons fail half-way (after elements were moved): indices and paths must still agree."""
  for prios in ([1, 2, 0, None], [2, 1, 0, None, 3], [0, 1, None, 2]):
    root = pg.Dict(l=pg.List([pg.Dict(prio=p, sub=pg.List([pg.Dict(z=i)])) for i, p in enumerate(prios)]))
    rec.evals += 1
    rec.trans += 1
    try:
      if mode == 'nonotify':
        with pg.notify_on_change(False):
          root.l.sort(key=lambda e: e.prio)
      else:
        root.l.sort(key=lambda e: e.prio)
      out = 'ok'
    except TypeError:
      out = 'TypeError'
    order = [e.prio for e in root.l]
    bad = st.check_topology([root])
    tr = dict(kind='sort-fail', mode=mode)
    if bad:
      clause, text = bad[0]
      rec.viol(f'{clause}/List.sort-raises' + (f'[{mode}]' if mode else ''), f'sort(key=prio) on priorities {prios!r} ended with {out} and order {order!r}: {text}', tr)
    else:
      rec.nt(('sort-fail', mode, repr(prios), out, repr(order)))


def run(ctx):
  ctx.pmap(sort_fail_item, ['', 'nonotify'], chunk=1)
  ctx.rule = ('explicit-state BFS over forests of real pg.Dict/pg.List/pg.Object nodes: every enabled mutating/copying '
              'operation at every node (addressed by key sequence) with every value of the menu (leaves, fresh plain and '
              'symbolic containers, existing nodes of either tree, detached nodes, MISSING) is executed on fresh objects '
              'reached by history replay; the parent/path/lookup/root/alias/detached invariant is evaluated over all '
              'nodes after every transition; distinct_nontrivial = distinct (operation kind, mode, container kind, '
              'post-state) of transitions that passed')
  vals_q = (0, 'pd', 'sd', 'pl', 'MISSING')
  if ctx.thorough:
    plans = [
        (TreeSpace([(n, 'smalld') for n in st.ROOT_NAMES], vals_q + ('obj', 'pnest', 'objdup', 'sddup', 'sldup'), max_nodes=9), 2),
        (TreeSpace([('listofdict', 'none'), ('dict', 'none'), ('obj', 'none'), ('tlist', 'none')],
                   (0, 'sd', 'MISSING'), max_nodes=7, rich=True), 3),
    ]
  else:
    plans = [
        (TreeSpace([(n, 'smalld') for n in st.ROOT_NAMES], vals_q + ('objdup', 'sddup', 'sldup'), max_nodes=9), 1),
        (TreeSpace([('listofdict', 'none'), ('obj', 'none'), ('dict', 'none'), ('tlist', 'none')],
                   (0, 'sd', 'MISSING'), max_nodes=6, rich=True), 2),
    ]
  total = []
  for sp, depth in plans:
    n = statespace.explore(ctx, sp, max_depth=depth, max_states=400000)
    total.append(dict(initials=[list(i) for i in sp.inits], values=[str(v) for v in sp.vals], depth=depth, states=n))
  ctx.capped[:] = [c for c in ctx.capped if 'history depth bound' not in c]
  ctx.note('plans', total)
  ctx.note('bound_note', 'history depth is the stated bound (not closure): every state at depth < bound is fully expanded')
  ctx.assumptions += ['lists are not grown beyond 4 elements; at most 9 symbolic nodes per forest before expansion stops',
                      'non-symbolic leaves are ints; nothing is demanded of them']
  ctx.sample(dict(init=['listofdict', 'smalld'], hist=[['nonotify', 'insert', 0, [], 0, 'sd'], ['', 'reverse', 0, []]]))


def replay(rec, data):
  if data.get('kind') == 'sort-fail':
    return sort_fail_item(rec, data['mode'])
  sp = TreeSpace([tuple(data['init'])], (), max_nodes=99)
  data = dict(data, init=tuple(data['init']))
  statespace.replay_trace(sp, rec, data)
