"""C09: change-notification contract and freshness of derived state (E1)."""
from __future__ import annotations

import pyglove as pg

from mc import fixtures as fx
from mc import statespace
from mc import symtree as st

MISSING = pg.MISSING_VALUE


def make_root(name):
  O, P = fx.Obs, fx.ObsNoSuper
  if name == 'objs':
    return O.partial(x=O.partial(x=1, items=[{'k': 0}]), r=1, items=[O.partial(r=2), {'q': 1}],
                     d={'m': [0], 'n': P.partial(x=2)})
  if name == 'cbs':
    return fx.cb_dict(a=fx.cb_list([fx.cb_dict(x=0), 1, pg.Dict(y=0, z=1)]),
                      b=pg.Dict(u=pg.Dict(v=0, w=1), o=O.partial(r=1)))
  if name == 'plainmid':
    # subscriber - plain containers - subscriber
    return O.partial(x=pg.Dict(p=pg.List([pg.Dict(a=0, b=1), P.partial(x=0)])), r=0)
  if name == 'typed':
    # schema-bound containers (defaults, dynamic keys, element spec) below a subscriber
    T = pg.typing
    return O.partial(
        x=pg.Dict(value_spec=T.Dict([('x', T.Int(default=1)), ('y', T.Int(default=2)), (T.StrKey('k.*'), T.Any())]), x=5, y=2, k1=2),
        items=[pg.List([1, 2], value_spec=T.List(T.Union([T.Int(), T.Object(pg.hyper.OneOf)])))], r=0)
  if name == 'hyper':
    return O.partial(x=pg.Dict(h=pg.oneof([1, 2]), c=0), items=[pg.oneof([3, 4])], r=1)
  raise ValueError(name)


ROOTS = ('objs', 'cbs', 'plainmid', 'hyper', 'typed')


_ST_MKVAL = st.mkval      # the symtree decoder (apply() swaps st.mkval for the duration of a call)


def mkval(world, tok):
  if isinstance(tok, tuple) and tok and tok[0] == 'ins':
    return pg.Insertion(mkval(world, tok[1]))
  if tok == 'hyper':
    return pg.oneof([1, 2])
  if tok == 'obs':
    return fx.Obs.partial(x=0)
  return _ST_MKVAL(world, tok)


def derived(node):
  """Derived facts a node reports about itself."""
  out = dict(
      partial=node.is_partial,
      missing=repr(node.sym_missing()),
      nondefault=repr(node.sym_nondefault()),
      pure=node.sym_puresymbolic,
      deterministic=node.is_deterministic,
      abstract=node.is_abstract,
  )
  return out


def derived_all(root):
  return [(keys, derived(node)) for keys, node, _, _ in st.walk(root)]


def pathmap(root):
  """absolute key tuple -> struct of the value there (all values, incl. leaves)."""
  out = {}

  def rec(v, keys):
    out[keys] = st.struct(v)
    if st.is_container(v):
      for k, c in st.children(v):
        rec(c, keys + (k,))

  rec(root, ())
  return out


def min_diffs(pre, post):
  """Minimal differing locations between two pathmaps."""
  diffs = []
  for k in sorted(set(pre) | set(post), key=lambda t: (len(t), repr(t))):
    if pre.get(k) != post.get(k) and not any(k[:len(d)] == d for d in diffs if len(d) < len(k)):
      diffs.append(k)
  # keep only the deepest explanation: a parent differs whenever a child differs
  out = []
  for k in diffs:
    out.append(k)
  # reduce to leaves of the difference tree
  alld = [k for k in set(pre) | set(post) if pre.get(k) != post.get(k)]
  leaves = [k for k in alld if not any(o != k and o[:len(k)] == k for o in alld)]
  return leaves


class NotifySpace(statespace.Space):
  name = 'notify'

  def __init__(self, inits, vals, modes, rich=True):
    self.inits = inits
    self.vals = vals
    self.modes = modes
    self.rich = rich

  def initials(self):
    return list(self.inits)

  def build(self, init):
    fx.LOG.clear()
    fx._CB.clear()
    w = dict(roots=[make_root(init[0])], detached=[])
    derived_all(w['roots'][0])     # populate caches
    fx.LOG.clear()
    return w

  def canon(self, w):
    return st.struct(w['roots'][0])

  def ops(self, w):
    root = w['roots'][0]
    if len(st.walk(root)) > 14:
      return []
    ops = st.menu(w, self.vals, modes=self.modes, node_vals=False, with_copy=False, rich=self.rich)
    ops = [o for o in ops if o[0] != 'noparents']
    # inserting the absence marker itself (pg.Insertion(MISSING_VALUE)) is a misuse, not an ordinary mutation
    ops = [o for o in ops if not (o[1] == 'rebind' and any(v == ('ins', 'MISSING') for _, v in o[4]))]
    ops = [o for o in ops if not (o[1] in ('append', 'insert', 'extend', 'iadd', 'setslice') and 'MISSING' in repr(o[4:]))]

    def past_end(o):
      if o[1] != 'rebind':
        return False
      node = st.resolve(root, o[3])
      return isinstance(node, pg.List) and any(isinstance(k, int) and k >= len(node) and v == 'MISSING' for k, v in o[4])
    ops = [o for o in ops if not past_end(o)]
    # bulk list writes whose later element a typed list rejects (the earlier ones stay), and a three-fold repetition
    for keys, node, _, _ in st.walk(root):
      if isinstance(node, pg.List) and len(node) <= 3:
        ops.append(('', 'extend', 0, keys, ('hyper', 'sd')))
        ops.append(('', 'iadd', 0, keys, ('hyper', 'sd')))
        if len(node):
          ops.append(('', 'setslice', 0, keys, (0, 1, None), ('hyper', 'sd')))
        if 0 < len(node) <= 2:
          ops.append(('', 'imul', 0, keys, 3))
    # batched deep rebinds from the root: two paths under one container / under different ones
    leaves = []
    for keys, node, _, _ in st.walk(root):
      for k, v in st.children(node):
        if not st.is_container(v) and len(keys) >= 1:
          leaves.append(keys + (k,))
    leaves = leaves[:6]
    for i in range(len(leaves)):
      ops.append(('', 'rebind_deep', 0, (), ((leaves[i], 7),)))
      for j in range(i + 1, len(leaves)):
        ops.append(('', 'rebind_deep', 0, (), ((leaves[i], 7), (leaves[j], 8))))
        ops.append(('nonotify', 'rebind_deep', 0, (), ((leaves[i], 7), (leaves[j], 8))))
    if len(leaves) >= 3:
      ops.append(('', 'rebind_deep', 0, (), ((leaves[0], 7), (leaves[1], 8), (leaves[-1], 9))))
    return ops

  def _written_containers(self, root, op):
    if op[1] == 'rebind_deep':
      return [tuple(op[3]) + tuple(k[:-1]) for k, _ in op[4]]
    return [tuple(op[3])]

  def apply(self, w, op, rec, trace):
    root = w['roots'][0]
    orig_mk = st.mkval
    st.mkval = mkval
    try:
      pre_nodes = {id(n): (keys, n) for keys, n, _, _ in st.walk(root)}
      pre_map = pathmap(root)
      fx.LOG.clear()
      r = st.apply_op(w, op)
      events = list(fx.LOG)
      fx.LOG.clear()
    finally:
      st.mkval = orig_mk
    root = w['roots'][0]
    ckind = st.container_kind(dict(roots=[root]), op) if True else '?'
    rec.stat(f'{op[1]}:{r[0] if r[0] == "ok" else r[1]}')
    base = f'{ckind}.{st.op_class(op)}'
    bad = False
    post_map = pathmap(root)
    changed = pre_map != post_map

    if r[0] == 'ok':
      ev = [(k, n, p) for k, n, p in events if id(n) in pre_nodes]
      changes = [(n, p) for k, n, p in ev if k == 'change']
      bounds = [n for k, n, p in ev if k == 'bound']
      silent = op[0] in ('nonotify', 'skip')
      written = self._written_containers(root, op)
      expected = {}
      for wc in written:
        for i in range(len(wc), -1, -1):
          anc = wc[:i]
          for nid, (keys, node) in pre_nodes.items():
            if keys == anc and fx.is_subscriber(node):
              expected[nid] = node
      counts = {}
      for n, _ in changes:
        counts[id(n)] = counts.get(id(n), 0) + 1
      if silent:
        if changes:
          rec.viol(f'event-while-disabled/{base}', f'{op!r}: {len(changes)} change events delivered although '
                   f'notification is off / skipped', trace)
          bad = True
      else:
        for nid, c in counts.items():
          if nid not in expected:
            rec.viol(f'event-to-unaffected/{base}', f'{op!r}: receiver at {pre_nodes[nid][0]} is not an ancestor of the '
                     f'written container(s) {written}', trace)
            bad = True
          elif c > 1:
            rec.viol(f'duplicate-event/{base}', f'{op!r}: receiver at {pre_nodes[nid][0]} got {c} events for one call', trace)
            bad = True
        if changed:
          real = min_diffs(pre_map, post_map)
          for nid, node in expected.items():
            rk = tuple(pre_nodes[nid][0])
            if not any(d[:len(rk)] == rk for d in real):
              continue        # nothing changed below this subscriber (e.g. a batch item that re-assigns the stored value)
            if counts.get(nid, 0) == 0:
              rec.viol(f'missing-event/{base}', f'{op!r} changed the tree but subscriber at {pre_nodes[nid][0]} '
                       f'({type(node).__name__}) got no event', trace)
              bad = True
        # children before parents
        order = [pre_nodes[id(n)][0] for n, _ in changes]
        for i in range(len(order)):
          for j in range(i + 1, len(order)):
            if len(order[j]) > len(order[i]) and order[j][:len(order[i])] == order[i]:
              rec.viol(f'order-parent-before-child/{base}', f'{op!r}: events arrived in order {order}', trace)
              bad = True
        # bound exactly once per change for objects chaining to super
        for nid in counts:
          node = pre_nodes[nid][1]
          if isinstance(node, fx.Obs):
            nb = sum(1 for b in bounds if b is node)
            if nb != counts[nid]:
              rec.viol(f'on_bound-count/{base}', f'{op!r}: {counts[nid]} change events but {nb} _on_bound calls', trace)
              bad = True
        # payload
        diffs = min_diffs(pre_map, post_map)
        for n, payload in changes:
          rkeys = pre_nodes[id(n)][0]
          reported = []
          shifty = set()       # lists in which this call inserted or deleted an element: later siblings move
          for rel, u in payload.items():
            ab = tuple(u.path.keys)
            if ab and isinstance(ab[-1], int) and (MISSING == u.old_value or MISSING == u.new_value):
              shifty.add(ab[:-1])
            if tuple(rkeys) + tuple(rel.keys) != ab:
              rec.viol(f'payload-relative-path/{base}', f'{op!r}: receiver at {rkeys} got relative path {rel!r} for '
                       f'update at {u.path!r}', trace)
              bad = True
            reported.append(ab)
            if not (MISSING == u.old_value):
              if ab in pre_map and st.struct(u.old_value) != pre_map[ab]:
                rec.viol(f'payload-old-value/{base}', f'{op!r}: update at {ab} reports old value '
                         f'{st.struct(u.old_value)!r}, pre-state had {pre_map[ab]!r}', trace)
                bad = True
              elif ab not in pre_map:
                rec.viol(f'payload-old-value/{base}', f'{op!r}: update at {ab} reports an old value but the location '
                         f'did not exist', trace)
                bad = True
            if not (MISSING == u.new_value):
              parent = ab[:-1]
              sibs = [v for k, v in post_map.items() if k[:-1] == parent and len(k) == len(ab)]
              if st.struct(u.new_value) not in sibs:
                rec.viol(f'payload-new-value/{base}', f'{op!r}: update at {ab} reports new value '
                         f'{st.struct(u.new_value)!r} which is not stored in that container afterwards', trace)
                bad = True
          # every real difference under this receiver lies under (or at the container of) a reported path
          for d in diffs:
            if d[:len(rkeys)] != tuple(rkeys):
              continue
            ok = any(d[:len(p)] == p or (len(p) >= 1 and d[:len(p) - 1] == p[:-1] and _is_list_shift(pre_map, post_map, p))
                     for p in reported) or any(d[:len(par)] == par for par in shifty)
            if not ok:
              rec.viol(f'payload-missing-location/{base}', f'{op!r}: location {d} changed but receiver at {rkeys} '
                       f'was told only about {reported}', trace)
              bad = True
              break
    # a node the call removed from the tree is nobody's child any more: changing it later must not reach the tree
    post_ids = {id(n) for _, n, _, _ in st.walk(root)}
    removed = [(keys, n) for keys, n in pre_nodes.values() if id(n) not in post_ids]
    for keys, n in removed[:4]:
      fx.LOG.clear()
      try:
        if isinstance(n, pg.List):
          n.append(0)
        elif isinstance(n, pg.Dict) and n.value_spec is None:
          n['probe_'] = 0
        elif isinstance(n, (fx.Obs, fx.ObsNoSuper)):
          n.rebind(r=12345, raise_on_no_change=False)
        else:
          continue
      except Exception:  # pylint: disable=broad-except
        continue
      leaked = [(k, m) for k, m, _ in fx.LOG if k == 'change' and id(m) in post_ids]
      fx.LOG.clear()
      if leaked:
        rec.viol(f'event-from-removed-node/{base}', f'{op!r} removed the node at {keys}; changing that node afterwards delivered '
                 f'{len(leaked)} change event(s) to nodes still in the tree', trace)
        bad = True
        break
    # freshness (ordinary mutations only)
    if op[0] == '' and not bad:
      got = derived_all(root)
      fresh_root = root.clone(deep=True)
      want = derived_all(fresh_root)
      fx.LOG.clear()
      if got != want:
        for (k1, d1), (k2, d2) in zip(got, want):
          if d1 != d2:
            fields = sorted(f for f in d1 if d1[f] != d2.get(f))
            rec.viol(f'stale:{"+".join(fields)}/{base}',
                     f'after {op!r} (outcome {r[0] if r[0] == "ok" else r[1]}) node at {k1} reports {[(f, d1[f]) for f in fields]} '
                     f'but a fresh copy computes {[(f, d2[f]) for f in fields]}', trace)
            bad = True
            break
    else:
      derived_all(root)
      fx.LOG.clear()
    if not bad:
      rec.nt((op[0], op[1], ckind, r[0], len(events), repr(op[3])))
    return bad


def _is_list_shift(pre_map, post_map, p):
  """An insertion/deletion at list position p shifts the following siblings."""
  parent = p[:-1]
  return isinstance(p[-1], int) and (
      sum(1 for k in pre_map if k[:-1] == parent and len(k) == len(p))
      != sum(1 for k in post_map if k[:-1] == parent and len(k) == len(p)))


def inherit_item(rec, order):
  """Handler lookup per class: a class hierarchy (base without handler, subclasses with / inheriting one) notified in every
  order of first use; each handler receives exactly the updates, whatever class was notified first."""
  log = []

  class Plain(pg.Object):
    x: int = 0
    allow_symbolic_assignment = True

  class Watched(Plain):
    def _on_change(self, field_updates):
      log.append(('Watched', self, dict(field_updates)))
      super()._on_change(field_updates)

  class Inherits(Watched):
    pass

  class Sibling(Plain):
    def _on_change(self, field_updates):
      log.append(('Sibling', self, dict(field_updates)))

  classes = dict(Plain=Plain, Watched=Watched, Inherits=Inherits, Sibling=Sibling)
  handler = dict(Plain=None, Watched='Watched', Inherits='Watched', Sibling='Sibling')
  tr = dict(kind='inherit', order=list(order))
  rec.evals += 1
  rec.trans += len(order)
  ok = True
  for rnd in (0, 1):
    for name in order:
      obj = classes[name](x=rnd)
      host = pg.Dict(o=obj)
      del log[:]
      host.rebind({'o.x': 5 + rnd})
      got = [(tag, sorted(str(k) for k in u), [(v.old_value, v.new_value) for v in u.values()]) for tag, who, u in log if who is obj]
      want = [] if handler[name] is None else [(handler[name], ['x'], [(rnd, 5 + rnd)])]
      if got != want:
        rec.viol(f'handler-payload-depends-on-class-order/{name}', f'first-use order {list(order)} (round {rnd}): a {name} instance '
                 f'changed x {rnd}->{5 + rnd}; its handler log is {got!r}, expected {want!r}', tr)
        ok = False
  if ok:
    rec.nt(('inherit', tuple(order)))


def run(ctx):
  import itertools
  ctx.pmap(inherit_item, list(itertools.permutations(('Plain', 'Watched', 'Inherits', 'Sibling'))), chunk=4)
  ctx.rule = ('explicit-state BFS over trees mixing objects with overridden _on_change (with and without super call), '
              'dicts/lists with callbacks, plain containers in between and hyper placeholders; every menu operation at '
              'every node, batched deep rebinds with 1-3 paths, each with notifications on / off / skipped; per call: '
              'exactly-once per affected subscriber, nobody else, children first, payload vs pre/post snapshots, '
              '_on_bound once; a node removed by the call no longer notifies the tree when changed; handler lookup for a class hierarchy in all 24 first-use orders; derived facts of every node vs a fresh deep copy after every ordinary step; '
              'distinct_nontrivial = distinct passing (mode, op, container, outcome, #events, node) tuples')
  vals = (0, 'sd', 'pl', 'hyper', 'MISSING')
  if ctx.thorough:
    sp = NotifySpace([(n,) for n in ROOTS], vals + ('obs',), modes=st.MODES)
    depth = 2
  else:
    sp = NotifySpace([(n,) for n in ROOTS], vals, modes=st.MODES)
    depth = 1
  statespace.explore(ctx, sp, max_depth=depth, max_states=200000)
  if not ctx.thorough:
    sp2 = NotifySpace([('plainmid',), ('hyper',)], (0, 'hyper', 'MISSING'), modes=('',), rich=True)
    statespace.explore(ctx, sp2, max_depth=2, max_states=200000)
  ctx.capped[:] = [c for c in ctx.capped if 'history depth bound' not in c]
  ctx.note('history_depth', depth)
  ctx.assumptions += ['receivers are identified by identity among nodes that existed before the call',
                      'a call that changes nothing may deliver zero or one event to each affected subscriber',
                      'explicit skip_notification / notify_on_change(False) calls are excluded from the freshness clause']
  ctx.sample(dict(init=['plainmid'], hist=[['', 'rebind_deep', 0, [], [[['x', 'p', 0, 'a'], 7], [['x', 'p', 0, 'b'], 8]]]]))


def replay(rec, data):
  if data.get('kind') == 'inherit':
    return inherit_item(rec, tuple(data['order']))
  sp = NotifySpace([tuple(data['init'])], (), st.MODES)
  statespace.replay_trace(sp, rec, dict(data, init=tuple(data['init'])))
