"""C05: serialization and persistence round trip (E2 over a value grammar; E1 over save/load/append histories)."""
from __future__ import annotations

import copy
import math
import os
import pickle
import shutil
import tempfile

import pyglove as pg

from mc import dnaspecs as D
from mc import fixtures as fx
from mc import specs as S
from mc import statespace
from mc import symtree as st


def module_fn(x, y=1):
  return x + y


# ---------------------------------------------------------------------------
# value grammar
# ---------------------------------------------------------------------------
STRINGS = ['', 'a', 'a"b', "a'b", 'back\\slash', 'tab\tnl\nret\r', '\x00\x1f', 'é漢😀', ' n_: x', '  \x85', '__tuple__', '{}', '[1]']
PRIMS = [None, True, False, 0, 1, -1, 2 ** 70, -(2 ** 70), 0.0, -0.0, 1.5, float('inf'), float('-inf'), float('nan'), 1e-320, 1e308]


def leaves():
  return [('prim', p) for p in PRIMS] + [('str', s) for s in STRINGS]


def values(thorough):
  """(label, factory) pairs: every shape of the grammar (factories build fresh values)."""
  N = fx.Node
  out = []
  for kind, v in leaves():
    out.append((f'{kind}:{v!r}', (lambda v=v: v)))
  ls = [v for _, v in leaves()]
  step = 1 if thorough else 3
  for v in ls[::step]:
    out.append((f'list[{v!r}]', (lambda v=v: [0, v, [0, v]])))
    out.append((f'tuple({v!r})', (lambda v=v: (v, (v,), [0, v, (1, v)]))))
    out.append((f'dict-value {v!r}', (lambda v=v: {'k': v, 'n': {'m': [0, v]}})))
    out.append((f'pg.Dict {v!r}', (lambda v=v: pg.Dict(k=v, n=pg.List([0, v, pg.Dict(m=v)])))))
    out.append((f'Node(x={v!r})', (lambda v=v: N(x=v, items=[0, v], d={'q': v}))))
  for s in STRINGS:
    if s:
      out.append((f'str-key {s!r}', (lambda s=s: {s: 1, 'z': {s: [0, s]}})))
      out.append((f'pg.Dict str-key {s!r}', (lambda s=s: pg.Dict({s: 1, 'z': pg.Dict({s: 2})}))))
  for k in (0, 1, -1, 10 ** 12, -7):
    out.append((f'int-key {k}', (lambda k=k: {k: 'v', 'a': {k: [k]}})))
    out.append((f'pg.Dict int-key {k}', (lambda k=k: pg.Dict({k: 'v', 'a': pg.Dict({k: pg.List([k])}), str(k): 's'}))))
  out += [
      ('empty tuple', lambda: ()), ('nested empty tuple', lambda: [(), ((),)]), ('tuple in dict', lambda: {'t': (1, (2, 3)), 'e': ()}),
      ('empty containers', lambda: [[], {}, pg.List(), pg.Dict()]),
      ('Node nested', lambda: N(x=N(x=N(x=1)), items=[N(), {'a': N(x=(1, 2))}])),
      ('Node defaults', lambda: N()),
      ('Typed', lambda: fx.Typed(n=2, s=None, child=N(x=1))),
      ('Req partial', lambda: fx.Req.partial(child=fx.Req.partial(a=1))),
      ('class', lambda: N), ('classes in list', lambda: [N, fx.Typed, int, str]),
      ('function', lambda: module_fn), ('function in dict', lambda: {'f': module_fn, 'g': [len]}),
      ('C functions of several modules', lambda: [len, __import__('math').sqrt, __import__('math').pow, __import__('operator').add, abs, pow]),
      ('lambdas sharing one code object', _lambdas), ('lambdas in dict', lambda: dict(zip('abcd', _lambdas()))),
      ('oneof', lambda: pg.oneof([1, 'a', N(x=pg.oneof([1, 2]))])), ('manyof', lambda: pg.manyof(2, [1, 2, 3], distinct=False, sorted=True)),
      ('floatv', lambda: pg.floatv(0.0, 1.0)), ('hyper in object', lambda: N(x=pg.oneof([1, 2]), items=[pg.floatv(-1.0, 1.0)])),
      ('Field', lambda: pg.typing.Field('a', pg.typing.Int(min_value=0), 'doc')),
      ('Schema', lambda: N.__schema__),
  ]
  # value specs of the C04 grammar
  g = S.grammar(2 if thorough else 1)
  for d in g[::1 if thorough else 2]:
    out.append((f'spec {d!r}', (lambda d=d: S.mk(d))))
  # DNASpecs and DNAs
  dg = D.grammar(12, 'quick')
  for d in dg[::2 if thorough else 6]:
    out.append((f'dnaspec {d!r}', (lambda d=d: D.mk(d, True, True))))
    lit = D.space_literals(d)[-1]
    out.append((f'dna {lit!r}', (lambda d=d, lit=lit: _dna(d, lit))))
  return out


def _dna(d, lit):
  x = pg.DNA(D.ctor(lit))
  x.set_metadata('m', {'a': [1, (2, 3)], 'f': 1.5}, cloneable=True)
  return x


# ---------------------------------------------------------------------------
# equality (NaN-aware, type-strict)
# ---------------------------------------------------------------------------
def _lambdas():
  """Functions built from ONE code object that differ only in their defaults (a loader must not conflate them)."""
  def make(n):
    def scaled(x, n=n, *, off=n * 10):
      return x * n + off
    return scaled
  return [lambda x, k=k: x * k for k in (2, 3)] + [make(5), make(7)]


def same(a, b):
  import types
  if isinstance(a, types.FunctionType) and isinstance(b, types.FunctionType) and a is not b:
    if (a.__code__.co_code != b.__code__.co_code or a.__code__.co_consts != b.__code__.co_consts
        or a.__defaults__ != b.__defaults__ or a.__kwdefaults__ != b.__kwdefaults__ or a.__name__ != b.__name__):
      return False
    try:
      return a(4) == b(4)
    except TypeError:
      return True
  # from_json documents that plain lists / dicts are loaded as their symbolic counterparts
  if isinstance(a, list) and isinstance(b, list) and not isinstance(a, tuple):
    pass
  elif isinstance(a, dict) and isinstance(b, dict):
    pass
  elif type(a) is not type(b):
    return False
  if isinstance(a, float):
    if math.isnan(a) or math.isnan(b):
      return math.isnan(a) and math.isnan(b)
    return a == b and math.copysign(1.0, a) == math.copysign(1.0, b)
  if isinstance(a, (list, tuple)):
    return len(a) == len(b) and all(same(x, y) for x, y in zip(a, b))
  if isinstance(a, pg.Object) and not isinstance(a, (pg.typing.ValueSpec,)):
    ka, kb = list(a.sym_keys()), list(b.sym_keys())
    return ka == kb and all(same(a.sym_getattr(k), b.sym_getattr(k)) for k in ka)
  if isinstance(a, dict):
    ia = list(a.sym_items()) if isinstance(a, pg.Dict) else list(a.items())
    ib = list(b.sym_items()) if isinstance(b, pg.Dict) else list(b.items())
    return len(ia) == len(ib) and all(type(k1) is type(k2) and k1 == k2 and same(v1, v2) for (k1, v1), (k2, v2) in zip(ia, ib))
  try:
    return bool(pg.eq(a, b))
  except Exception:  # pylint: disable=broad-except
    return a == b


def _has_empty_tuple(v):
  if isinstance(v, tuple):
    return len(v) == 0 or any(_has_empty_tuple(x) for x in v)
  if isinstance(v, list):
    return any(_has_empty_tuple(x) for x in v)
  if isinstance(v, dict):
    return any(_has_empty_tuple(x) for x in v.values())
  return False


def kind_of(label):
  return label.split(' ')[0].split(':')[0].split('[')[0].split('(')[0]


def value_item(rec, item):
  label, idx = item
  mk = dict(VALUES)[label]
  tr = dict(kind='value', label=label)
  v = mk()
  k = kind_of(label)
  rec.evals += 1
  ok = True
  partial = 'partial' in label
  routes = [
      ('json', lambda x: pg.from_json(pg.to_json(x), allow_partial=partial)),
      ('json_str', lambda x: pg.from_json_str(pg.to_json_str(x), allow_partial=partial)),
      ('deepcopy', copy.deepcopy),
      ('pickle', lambda x: pickle.loads(pickle.dumps(x))),
  ]
  if k in ('lambdas',):
    routes = [r for r in routes if r[0] != 'pickle']       # Python itself cannot pickle a lambda
  if isinstance(v, pg.Symbolic):
    routes.append(('clone', lambda x: x.clone(deep=True)))
  for route, fn in routes:
    rec.evals += 1
    try:
      w = fn(mk())
    except Exception as e:  # pylint: disable=broad-except
      sig = ('roundtrip-raises:ValueError/empty-tuple' if 'at least one element' in str(e) and _has_empty_tuple(v)
             else f'roundtrip-raises:{type(e).__name__}/{route}/{k}')
      rec.viol(sig, f'{label} via {route}: {e}', dict(tr, route=route)); ok = False
      continue
    if not same(v, w):
      rec.viol(f'roundtrip-differs/{route}/{k}', f'{label}: {v!r} came back as {w!r}', dict(tr, route=route)); ok = False
      continue
    if isinstance(v, pg.Symbolic) and 'nan' not in label:      # hash(nan) is identity based in Python >= 3.10
      try:
        if pg.hash(v) != pg.hash(w):
          rec.viol(f'hash-differs/{route}/{k}', f'{label}', dict(tr, route=route)); ok = False
      except TypeError:
        pass
      if st.is_container(w):
        for clause, text in st.check_topology([w]):
          rec.viol(f'loaded-value-malformed:{clause}/{route}/{k}', f'{label}: {text}', dict(tr, route=route)); ok = False
    if route in ('json', 'json_str') and k != 'lambdas':     # a restored lambda is re-homed (its recorded name changes); only behaviour is claimed
      try:
        if route == 'json' and repr(pg.to_json(w)) != repr(pg.to_json(mk())):
          rec.viol(f'encoding-not-fixpoint/{route}/{k}', f'{label}: to_json(from_json(to_json(v))) differs', dict(tr, route=route)); ok = False
        if route == 'json_str' and pg.to_json_str(w) != pg.to_json_str(mk()):
          rec.viol(f'encoding-not-fixpoint/{route}/{k}', f'{label}', dict(tr, route=route)); ok = False
      except Exception as e:  # pylint: disable=broad-except
        rec.viol(f'reencode-raises:{type(e).__name__}/{route}/{k}', f'{label}: {e}', dict(tr, route=route)); ok = False
  # schema-backed behaviour of loaded objects
  if isinstance(v, fx.Typed):
    w = pg.from_json_str(pg.to_json_str(v))
    for val in (2, 3, 'a'):
      r1 = _try(lambda: mk().rebind(n=val))
      r2 = _try(lambda: w.clone(deep=True).rebind(n=val))
      if r1 != r2:
        rec.viol('loaded-object-schema-behaviour-differs', f'rebind(n={val!r}): original {r1}, loaded {r2}', tr); ok = False
  if ok:
    rec.nt(label)
  rec.trans += 1


def _try(fn):
  try:
    fn()
    return 'ok'
  except Exception as e:  # pylint: disable=broad-except
    return type(e).__name__


VALUES = []


# ---------------------------------------------------------------------------
# file histories (E1): model = dict path -> last value saved; list per record file
# ---------------------------------------------------------------------------
FILE_VALUES = {'long': lambda: pg.Dict(a=[1, 2, 3, 4, 5, 6, 7, 8], b='x' * 40), 'mid': lambda: pg.Dict(a=[1], b='yy'), 'short': lambda: 7,
               'uni': lambda: pg.Dict(s='l1 l2\x85\n', t=(1,))}


class FileSpace(statespace.Space):
  name = 'files'

  def __init__(self, fs):
    self.fs = fs          # 'mem' or 'std'
    self.name = f'files-{fs}'

  def initials(self):
    return [()]

  def build(self, init):
    if self.fs == 'mem':
      root = f'/mem/c05_{id(object())}_{os.getpid()}_{_uniq()}'
    else:
      root = tempfile.mkdtemp(prefix='c05_')
    w = dict(root=root, m={}, recs={})
    pg.io.mkdirs(os.path.join(root, 'e'), exist_ok=True)
    if self.fs == 'std':
      os.chdir(root)          # the bare file names below are relative to the scratch directory
    return w

  def paths(self, w):
    r = w['root']
    out = {'m': f'{r}/m.json', 'em': f'{r}/e/m.json', 'a': f'{r}/a.json'}
    if self.fs == 'std':
      out['bare'] = 'bare.json'        # a path without a directory part (what the documentation examples use)
    return out

  def canon(self, w):
    return (tuple(sorted((k, repr(pg.to_json(v))) for k, v in w['m'].items())),
            tuple(sorted((k, repr([pg.to_json(x) for x in v])) for k, v in w['recs'].items())))

  def ops(self, w):
    ops = []
    for p in ('m', 'em', 'a') + (('bare',) if self.fs == 'std' else ()):
      for v in (FILE_VALUES if p != 'bare' else ('mid', 'short')):
        ops.append(('save', p, v))
      if p in w['m'] and p != 'bare':
        # overwrite while a reader of the old content is still open (a raw handle that read to the end and was never
        # closed); only as one step with the overwrite: what a *load* sees while such a handle is open is not claimed
        ops.append(('peeksave', p, 'short'))
      ops.append(('load', p))
    for p in ('r1', 'er1') + (('bare-recs',) if self.fs == 'std' else ()):
      for v in ('long', 'short', 'uni'):
        ops.append(('append', p, v))
        ops.append(('rewrite', p, v))
      ops.append(('rewrite', p, None))       # a writer that adds nothing still replaces the sequence by an empty one
      ops.append(('append', p, None))        # an appender that adds nothing leaves it as it is (creating it if absent)
    return ops

  def _recpath(self, w, p):
    if p == 'bare-recs':
      return 'bare.jsonl'
    return f"{w['root']}/{'e/' if p.startswith('e') else ''}recs.jsonl"

  def apply(self, w, op, rec, trace):
    bad = False
    k = op[0]
    try:
      if k == 'save':
        v = FILE_VALUES[op[2]]()
        pg.save(v, self.paths(w)[op[1]])
        w['m'][op[1]] = v
      elif k == 'peeksave':
        h = pg.io.open(self.paths(w)[op[1]], 'r')
        h.read()
        w.setdefault('handles', []).append(h)
        v = FILE_VALUES[op[2]]()
        pg.save(v, self.paths(w)[op[1]])
        w['m'][op[1]] = v
      elif k == 'load':
        pass
      elif k in ('append', 'rewrite'):
        path = self._recpath(w, op[1])
        added = [] if op[2] is None else [FILE_VALUES[op[2]]()]
        with pg.io.open_sequence(path, 'a' if k == 'append' else 'w', serializer=pg.to_json_str, deserializer=pg.from_json_str) as seq:
          for v in added:
            seq.add(v)
        if k == 'append':
          w['recs'].setdefault(op[1], []).extend(added)
        else:
          w['recs'][op[1]] = list(added)
    except Exception as e:  # pylint: disable=broad-except
      rec.viol(f'file-op-raises:{type(e).__name__}/{self.fs}/{k}', f'{op!r} after {trace and trace.get("hist")}: {e}', trace)
      return True
    rec.stat(f'{self.fs}:{k}')
    # read-your-writes on every path after every step
    for name, path in self.paths(w).items():
      if name in w['m']:
        try:
          got = pg.load(path)
          if not same(got, w['m'][name]):
            rec.viol(f'load-differs-from-last-save/{self.fs}', f'after {op!r}: {name} holds {got!r}, last saved {w["m"][name]!r}', trace); bad = True
        except Exception as e:  # pylint: disable=broad-except
          rec.viol(f'load-raises:{type(e).__name__}/{self.fs}', f'after {op!r}: loading {name}: {e}', trace); bad = True
      else:
        if pg.io.path_exists(path):
          rec.viol(f'unsaved-path-exists/{self.fs}', f'after {op!r}: {name} exists although nothing was saved there', trace); bad = True
    for rname, want in w['recs'].items():
      path = self._recpath(w, rname)
      try:
        with pg.io.open_sequence(path, 'r', serializer=pg.to_json_str, deserializer=pg.from_json_str) as seq:
          got = [x for x in seq]
        if len(got) != len(want) or not all(same(a, b) for a, b in zip(got, want)):
          rec.viol(f'records-differ/{self.fs}/{k}', f'after {op!r}: sequence holds {got!r}, appended {want!r}', trace); bad = True
      except Exception as e:  # pylint: disable=broad-except
        rec.viol(f'records-read-raises:{type(e).__name__}/{self.fs}', f'after {op!r}: {e}', trace); bad = True
    if not bad:
      rec.nt((self.fs, op, repr(self.canon(w))[:300]))
    return bad

  def dispose(self, w):
    for h in w.get('handles', []):
      try:
        h.close()
      except Exception:  # pylint: disable=broad-except
        pass
    if self.fs == 'std':
      os.chdir('/')
      shutil.rmtree(w['root'], ignore_errors=True)
    else:
      try:
        pg.io.rmdirs(w['root'])
      except Exception:  # pylint: disable=broad-except
        pass


_N = [0]


def _uniq():
  _N[0] += 1
  return _N[0]


def run(ctx):
  global VALUES
  VALUES = values(ctx.thorough)
  ctx.rule = ('(a) every value of the grammar (primitives incl. big ints / special floats / hostile strings; tuples incl. empty; '
              'lists; dicts with str and int keys incl. negative; pg.Dict/pg.List; objects nested / defaulted / partial; classes; '
              'functions; value specs of the C04 grammar; schemas; DNASpecs and DNAs with metadata; hyper primitives) through '
              'to_json/from_json, the string form, JSON text, pickle, deepcopy, clone: equal (NaN-aware, type- and key-type-'
              'strict), same hash, encoding fixpoint, well-formed tree, input not consumed; (b) explicit-state BFS over '
              'save / load / append / rewrite histories on both file systems with a dict / list model, every path read back '
              'after every step; distinct_nontrivial = values passing every route + passing file transitions')
  ctx.pmap(value_item, [(l, i) for i, (l, _) in enumerate(VALUES)], chunk=8)
  ctx.note('values', len(VALUES))
  depth = 4 if ctx.thorough else 3
  for fs in ('mem', 'std'):
    statespace.explore(ctx, FileSpace(fs), max_depth=depth, max_states=200000)
  ctx.capped[:] = [c for c in ctx.capped if 'history depth bound' not in c]
  ctx.note('file_history_depth', depth)
  ctx.states += len(VALUES)
  ctx.sample(dict(value='tuple in dict', routes=['json', 'json_str', 'pickle', 'deepcopy']))
  ctx.sample(dict(fs='mem', hist=[['save', 'm', 'long'], ['save', 'em', 'mid'], ['save', 'm', 'short'], ['load', 'a']]))
  ctx.assumptions += ["reserved encodings are not generated as user data: the key '_type', a list whose first element is '__tuple__', "
                      "string keys starting with 'n_:' (documented markers of the encoding)",
                      'a stand-alone typed pg.Dict / pg.List is not required to keep its value_spec (documented as not serialized)']


def replay(rec, data):
  global VALUES
  if data.get('kind') == 'value':
    VALUES = values(True)
    return value_item(rec, (data['label'], 0))
  sp = FileSpace('std' if data.get('space') == 'files-std' else 'mem')
  hist = data.get('hist', [])
  w = sp.build(())
  for op in hist:
    sp.apply(w, statespace._tup(op), statespace.NULL, None)
  if 'op' in data:
    sp.apply(w, statespace._tup(data['op']), rec, data)
  sp.dispose(w)
