"""C17: scoped settings restore exactly and never leak across threads (E2 programs + E4 schedules)."""
from __future__ import annotations

import itertools

import pyglove as pg

from mc import fixtures as fx
from mc import sched

F = pg.symbolic
P = pg.coding.CodePermission
FILES = ('core/utils/thread_local.py', 'core/symbolic/flags.py', 'core/utils/contextual.py', 'core/detouring/class_detour.py',
         'core/coding/permissions.py', 'core/hyper/dynamic_evaluation.py', 'core/utils/timing.py')


class Boom(Exception):
  """The exception blocks are left by. It carries a `cause` attribute that is not an exception (application errors do)."""
  cause = 'disk full'


class Halt(BaseException):
  """Leaves a block the way KeyboardInterrupt / GeneratorExit do (not an Exception subclass)."""


class DA:
  def __init__(self):
    pass


class DB:
  def __init__(self):
    pass


class DC:
  def __init__(self):
    pass


class DSub(DA):
  """Detoured together with its base class."""


_PROBE = [0]


# ---------------------------------------------------------------------------
# catalogue: one adaptor per scoped manager
# ---------------------------------------------------------------------------
class Mgr:
  process_wide = False

  def __init__(self, name, enter, args, observe, model, default):
    self.name = name
    self.enter = enter
    self.args = args
    self.observe = observe
    self.model = model          # stack of args (outer -> inner) -> expected observation
    self.default = default
    self.stack_key = name       # managers writing to the same underlying setting share one model stack


def innermost(default):
  return lambda stack: stack[-1] if stack else default


def outermost(default):
  return lambda stack: stack[0] if stack else default


def ctx_model(stack):
  cur = None
  for v, cascade in stack:
    if cur is not None and cur[1]:
      continue
    cur = (v, cascade)
  return None if cur is None else cur[0]


def merge_model(stack):
  out = {}
  for d in stack:
    out.update(dict(d))
  return tuple(sorted(out.items()))


def detour_model(stack):
  """Documented rules: outer mappings take precedence; an inner destination is resolved through the outer mappings."""
  effective = {}
  for scope in stack:                 # outermost first
    for src, dest in scope:
      if src in effective:
        continue
      effective[src] = effective.get(dest, dest)
  return (effective.get('DA', 'DA'), effective.get('DSub', 'DSub'))


def detour_observe():
  return (_safe(lambda: type(DA()).__name__), _safe(lambda: type(DSub()).__name__))


def detour_enter(arg):
  table = {'DA': DA, 'DB': DB, 'DC': DC, 'DSub': DSub}
  return pg.detour([(table[s], table[d]) for s, d in arg])


def dyn_observe():
  fn = pg.hyper.base.get_dynamic_evaluate_fn()
  return 'placeholder' if fn is None else getattr(fn, 'tag', '<foreign fn>')


def _tagged(tag):
  fn = lambda h: tag
  fn.tag = tag
  return fn


class CtxObj(pg.ContextualObject):
  x: int = 1
  y: int = 0


_CTX = [None, 0]


def ctxobj_reset():
  _CTX[0] = CtxObj()


def ctxobj_observe():
  """The value seen through the object after an ordinary rebind of ANOTHER field inside the scope."""
  o = _CTX[0]
  _CTX[1] += 1
  try:
    o.rebind(y=_CTX[1])
  except Exception:  # pylint: disable=broad-except
    pass             # another scope of the program (as_sealed) may refuse the write: the read below is what is observed
  return o.x


def timeit_enter(name):
  return pg.timeit(name)


def timeit_observe():
  """Names of the timing scopes this thread is inside (outer -> inner), via a probe scope's status keys."""
  with pg.timeit('probe') as probe:
    pass
  chain = []
  cur = getattr(probe, '_parent', None)
  while cur is not None:
    chain.append(cur.name)
    cur = getattr(cur, '_parent', None)
  top = pg.utils.thread_local_get('__timing_context__', None)
  now = top.name if top is not None else None
  return (tuple(reversed(chain)), now)


def timeit_model(stack):
  return (tuple(stack), stack[-1] if stack else None)


_FMT_PROBE = pg.Dict(a=1)


def fmt_observe_str():
  return str(_FMT_PROBE)


def fmt_observe_repr():
  return repr(_FMT_PROBE)


def view_observe():
  # behavioural probe: the tooltip markup disappears when the option is off
  html = pg.to_html_str(pg.Dict(a=1))
  return ('tooltip' in html.split('<body>')[-1], 'summary-title' in html.split('<body>')[-1])


def _deep_merge(a, b):
  out = dict(a)
  for k, v in b.items():
    if isinstance(v, dict) and isinstance(out.get(k), dict):
      out[k] = _deep_merge(out[k], v)
    else:
      out[k] = v
  return out


def _freeze(x):
  return tuple(sorted((k, _freeze(v)) for k, v in x.items())) if isinstance(x, dict) else x


def view_merged_observe():
  """The options a render call would receive in this scope (what `with pg.view_options() as o` yields)."""
  with pg.view_options() as o:
    return _freeze(o)


def view_merged_model(stack):
  out = {}
  for d in stack:
    out = _deep_merge(out, {k: (dict(v) if isinstance(v, tuple) else v) for k, v in d})
  return _freeze(out)


def view_model(stack):
  opts = dict(enable_summary_tooltip=True, enable_key_tooltip=True)
  for d in stack:
    opts.update(dict(d))
  return None   # compared model-free only (see check)


def catalogue():
  out = _catalogue()
  for m in out:
    if m.name == 'view_options(merged)':
      m.stack_key = 'view_options'
  return out


def _catalogue():
  tri = (True, False, None)
  return [
      Mgr('notify_on_change', pg.notify_on_change, (True, False), F.is_change_notification_enabled, innermost(True), True),
      Mgr('enable_type_check', pg.enable_type_check, (True, False), F.is_type_check_enabled, innermost(True), True),
      Mgr('allow_partial', pg.allow_partial, tri, F.is_under_partial_scope, innermost(None), None),
      Mgr('as_sealed', pg.as_sealed, tri, F.is_under_sealed_scope, innermost(None), None),
      Mgr('allow_writable_accessors', pg.allow_writable_accessors, tri, F.is_under_accessor_writable_scope, innermost(None), None),
      Mgr('track_origin', pg.track_origin, (True, False), F.is_tracking_origin, innermost(False), False),
      Mgr('auto_call_functors', pg.auto_call_functors, (True, False), F.should_call_functors_during_init, innermost(None), None),
      Mgr('contextual_override', lambda a: pg.contextual_override(x=a[0], cascade=a[1]), ((1, False), (2, False), (3, True)),
          lambda: pg.contextual_value('x', None), ctx_model, None),
      Mgr('str_format', lambda a: pg.str_format(compact=a), (True, False), fmt_observe_str,
          lambda st: '{a=1}' if (st and st[-1]) else '{\n  a = 1\n}', '{\n  a = 1\n}'),
      Mgr('repr_format', lambda a: pg.repr_format(compact=a), (True, False), fmt_observe_repr,
          lambda st: '{a=1}' if (not st or st[-1]) else '{\n  a = 1\n}', '{a=1}'),
      Mgr('view_options', lambda a: pg.view_options(**dict(a)),
          ((('enable_summary_tooltip', False),), (('enable_key_tooltip', False),), (('enable_summary_tooltip', True),)),
          view_observe, None, None),
      Mgr('view_options(merged)', lambda a: pg.view_options(**{k: (dict(v) if isinstance(v, tuple) else v) for k, v in a}),
          ((('extra_flags', (('a', 1),)),), (('extra_flags', (('b', 2),)), ('collapse_level', 2)), (('extra_flags', (('a', 3),)),)),
          view_merged_observe, view_merged_model, ()),
      Mgr('object.override', lambda a: _CTX[0].override(x=a), (10, 20), ctxobj_observe, innermost(1), 1),
      Mgr('coding.context', lambda a: pg.coding.context(**dict(a)), ((('a', 1),), (('a', 2),), (('b', 3),)),
          lambda: tuple(sorted(pg.coding.get_context().items())), merge_model, ()),
      Mgr('coding.permission', pg.coding.permission, (P.ASSIGN, P.CALL | P.ASSIGN, P(0)), pg.coding.get_permission,
          outermost(None), None),
      Mgr('detour', detour_enter, ((('DA', 'DB'),), (('DB', 'DC'),), (('DA', 'DC'),), (('DA', 'DB'), ('DSub', 'DC'))), detour_observe,
          detour_model, ('DA', 'DSub')),
      Mgr('dynamic_evaluate(per_thread)', lambda a: pg.hyper.dynamic_evaluate(_tagged(a), per_thread=True), ('f1', 'f2'),
          dyn_observe, innermost('placeholder'), 'placeholder'),
      Mgr('timeit', timeit_enter, ('t1', 't2'), timeit_observe, timeit_model, ((), None)),
  ]


def process_wide():
  """Managers documented as process-wide: only sequential restoration is checked."""
  class Plain:
    def __init__(self, v=0):
      self.v = v
  W = pg.wrap(Plain)
  return [
      Mgr('dynamic_evaluate(process)', lambda a: pg.hyper.dynamic_evaluate(_tagged(a), per_thread=False), ('g1', 'g2'),
          dyn_observe, innermost('placeholder'), 'placeholder'),
      Mgr('load_types_for_deserialization', lambda a: pg.utils.JSONConvertible.load_types_for_deserialization(fx.Leaf if a else fx.Leafy),
          (True, False), lambda: _ondemand(), None, None),
      Mgr('apply_wrappers', lambda a: pg.apply_wrappers([W]), (True,), lambda: None, None, None),
  ]


def _ondemand():
  try:
    pg.from_json({'_type': 'nowhere.Leafy', 'v': 1})
    return 'Leafy-loadable'
  except Exception:  # pylint: disable=broad-except
    return 'unknown-type'


CATALOGUE = None


def observe_all(mgrs):
  return tuple((m.name, _safe(m.observe)) for m in mgrs)


def _safe(fn):
  try:
    return fn()
  except Exception as e:  # pylint: disable=broad-except
    return f'<raises {type(e).__name__}>'


# ---------------------------------------------------------------------------
# programs: well-nested trees of (manager index, arg index, exits by exception)
# ---------------------------------------------------------------------------
SHAPES = {
    1: ['(X)'],
    2: ['(X)(X)', '(X(X))'],
    3: ['(X)(X)(X)', '(X)(X(X))', '(X(X))(X)', '(X(X)(X))', '(X(X(X)))'],
}


def parse_shape(shape):
  """'(X(X)(X))' -> nested list structure with node counters."""
  pos = 0
  idx = [0]

  def nodes():
    nonlocal pos
    out = []
    while pos < len(shape) and shape[pos] == '(':
      pos += 2            # '(X'
      me = idx[0]
      idx[0] += 1
      kids = nodes()
      pos += 1            # ')'
      out.append((me, kids))
    return out
  return nodes()


def execute(tree, assign, mgrs, rec, tr, label, check_model=True, observe=None):
  """Runs the program; returns the observation log. assign[i] = (mgr index, arg index, raises)."""
  log = []
  ctxobj_reset()
  stacks = {m.stack_key: [] for m in mgrs}
  ok = True
  observe_all = observe or globals()['observe_all']

  def expected():
    out = []
    for m in mgrs:
      if m.model is None:
        out.append((m.name, None))
      else:
        out.append((m.name, m.model(stacks[m.stack_key])))
    return tuple(out)

  def compare(where):
    nonlocal ok
    got = observe_all(mgrs)
    log.append(got)
    if not check_model:
      return
    for (name, g), (_, w) in zip(got, expected()):
      m = next(x for x in mgrs if x.name == name)
      if m.model is not None and g != w:
        rec.viol(f'nesting-rule/{name}', f'{label} at {where}: scopes {stacks[m.stack_key]} are active, observed {g!r}, documented rule '
                 f'gives {w!r}', tr)
        ok = False

  def run(nodes):
    nonlocal ok
    for me, kids in nodes:
      mi, ai, raises = assign[me]
      m = mgrs[mi]
      arg = m.args[ai]
      before = observe_all(mgrs)
      try:
        with m.enter(arg):
          stacks[m.stack_key].append(arg)
          compare(f'enter#{me} {m.name}({arg!r})')
          run(kids)
          compare(f'before-exit#{me} {m.name}({arg!r})')
          if raises == 'base':
            raise Halt()
          if raises:
            raise Boom()
      except (Boom, Halt):
        pass
      except Exception as e:  # pylint: disable=broad-except
        rec.viol(f'scope-raises:{type(e).__name__}/{m.name}', f'{label}: entering / leaving #{me} {m.name}({arg!r})'
                 f'{" (block left by exception)" if raises else ""} raised {type(e).__name__}: {e}', tr)
        ok = False
      finally:
        if stacks[m.stack_key] and stacks[m.stack_key][-1] is arg:
          stacks[m.stack_key].pop()
      after = observe_all(mgrs)
      log.append(after)
      if after != before:
        diff = [(a[0], b[1], a[1]) for a, b in zip(after, before) if a != b]
        for name, was, now in diff:
          rec.viol(f'not-restored/{name}' + ('/exception-exit' if raises is True else '/base-exception-exit' if raises else ''),
                   f'{label}: after leaving #{me} {m.name}({arg!r}){" by exception" if raises else ""}: {name} was {was!r} before '
                   f'entering and is {now!r} now', tr)
        ok = False
  run(tree)
  return log, ok


def seq_item(rec, item):
  mi, mj, tier = item
  # the (expensive, behavioural) view_options probe is only part of the observation vector when the program uses it
  names = {CATALOGUE[mi].name, CATALOGUE[mj].name}
  mgrs = [m for m in CATALOGUE if m.name != 'view_options' or 'view_options' in names]
  mi, mj = mgrs.index(CATALOGUE[mi]), mgrs.index(CATALOGUE[mj])
  pair = sorted({mi, mj})
  heavy = 'view_options' in names and tier != 'thorough'        # behavioural probe renders HTML: keep its programs shorter
  deep = mi == mj or (tier == 'thorough' and (mi + mj) % 11 == 0)       # thorough: three scopes for some of the pairs too
  for n in (((1, 2) if heavy else (1, 2, 3)) if deep else (2,)):
    for shape in SHAPES[n]:
      tree = parse_shape(shape)
      choices = []
      for _ in range(n):
        opts = []
        for k in pair:
          nargs = len(mgrs[k].args)
          for ai in range(nargs if deep else min(2, nargs)):
            for raises in ((False, True, 'base') if mi == mj else (False, True)):
              opts.append((k, ai, raises))
        choices.append(opts)
      for assign in itertools.product(*choices):
        if mi != mj and len({a[0] for a in assign}) < 2 and n > 1:
          continue        # covered by the same-manager programs
        rec.evals += 1
        label = shape + ' ' + ' '.join(f'{mgrs[a[0]].name}[{a[1]}]{"!!" if a[2] == "base" else "!" if a[2] else ""}' for a in assign)
        tr = dict(kind='program', shape=shape, assign=[list(a) for a in assign])
        _, ok = execute(tree, list(assign), mgrs, rec, tr, label)
        if ok:
          rec.nt(label)
  rec.trans += 1


def pw_item(rec, _):
  mgrs = process_wide()
  # this thread has used (and left) a per-thread dynamic-evaluation scope before: later process-wide scopes still apply
  with pg.hyper.dynamic_evaluate(_tagged('t0'), per_thread=True):
    pass
  for k, m in enumerate(mgrs):
    for n in (1, 2):
      for shape in SHAPES[n]:
        tree = parse_shape(shape)
        for assign in itertools.product(*[[(k, ai, r) for ai in range(len(m.args)) for r in (False, True, 'base')] for _ in range(n)]):
          rec.evals += 1
          label = f'{shape} {m.name}{[a[1:] for a in assign]}'
          _, ok = execute(tree, list(assign), mgrs, rec, dict(kind='process-wide', shape=shape, assign=[list(a) for a in assign]), label)
          if ok:
            rec.nt(label)
  rec.trans += 1


# ---------------------------------------------------------------------------
# threads: each thread's observations equal its single-threaded run
# ---------------------------------------------------------------------------
THREAD_PROGRAMS = [
    # (shape, assignment by manager *name*)
    ('(X(X))', [('as_sealed', 0, False), ('contextual_override', 0, False)]),
    ('(X)(X)', [('allow_partial', 0, False), ('coding.permission', 0, True)]),
    ('(X(X))', [('coding.context', 0, False), ('coding.context', 2, False)]),
    ('(X(X))', [('detour', 0, False), ('detour', 1, True)]),
    ('(X(X))', [('notify_on_change', 1, False), ('enable_type_check', 1, False)]),
    ('(X)(X)', [('str_format', 0, False), ('dynamic_evaluate(per_thread)', 0, False)]),
    ('(X(X))', [('allow_writable_accessors', 1, False), ('track_origin', 0, True)]),
    ('(X(X))', [('coding.permission', 2, False), ('coding.permission', 1, False)]),
    ('(X(X))', [('timeit', 0, False), ('timeit', 1, True)]),
]


def thread_assign(prog, mgrs):
  names = [m.name for m in mgrs]
  return [(names.index(n), ai, r) for n, ai, r in prog[1]]


def thread_item(rec, item):
  pi, pj, prefix, bound, mode = item
  progs = [THREAD_PROGRAMS[pi], THREAD_PROGRAMS[pj]]
  mgrs = [m for m in CATALOGUE if m.name != 'view_options']
  if mode == 'lines':
    # statement-level exploration: only the managers the two programs use are observed (every observation is traced code)
    used = {n for p in progs for n, _, _ in p[1]}
    mgrs = [m for m in mgrs if m.name in used]
  # single-threaded reference logs
  from mc.runner import Rec
  refs = []
  for p in progs:
    log, _ = execute(parse_shape(p[0]), thread_assign(p, mgrs), mgrs, Rec(), None, 'ref', check_model=False)
    refs.append(log)
  logs = [None, None]

  def body(i):
    def run():
      log, _ = _exec_with_points(progs[i], mgrs, sched._CURRENT if mode == 'events' else None)
      logs[i] = log
    return run

  s = sched.Scheduler([body(0), body(1)], prefix, FILES if mode == 'lines' else ())
  s.run()
  rec.evals += 1
  rec.trans += len(s.points)
  tr = dict(kind='threads', programs=[pi, pj], prefix=s.choices()[:len(prefix)], mode=mode)
  if s.divergence:
    raise RuntimeError(f'schedule replay diverged: {s.divergence}')
  ok = True
  for i in (0, 1):
    if s.errors[i] is not None:
      rec.viol(f'thread-died:{s.errors[i][0]}', f'thread {i}: {s.errors[i][1]}', tr); ok = False
    elif logs[i] != refs[i]:
      k = next((n for n, (a, b) in enumerate(zip(logs[i], refs[i])) if a != b), None)
      diff = [] if k is None else [(a[0], a[1], b[1]) for a, b in zip(logs[i][k], refs[i][k]) if a != b]
      for name, got, want in diff[:2]:
        rec.viol(f'setting-leaks-across-threads/{name}', f'thread {i} running {progs[i]} concurrently with {progs[1 - i]} (schedule '
                 f'{[(n, c) for n, c in enumerate(s.choices()) if c]}) observed {name}={got!r}; alone it observes {want!r}', tr)
      ok = False
  if s.deadlock:
    rec.viol('deadlock', f'{tr}', tr); ok = False
  if ok:
    rec.nt((pi, pj, tuple((n, c) for n, c in enumerate(s.choices()) if c)))
  return dict(succ=sched.successors(s, len(prefix), bound), ok=ok, npoints=len(s.points))


def _exec_with_points(prog, mgrs, s):
  """execute() with an explicit scheduling point before every event (event-granularity interleavings)."""
  from mc.runner import Rec
  if s is None:
    return execute(parse_shape(prog[0]), thread_assign(prog, mgrs), mgrs, Rec(), None, 'thread', check_model=False)
  tid = s.current()
  wrapped = []
  for m in mgrs:
    wrapped.append(m)
  # wrap enter of the managers used by this program so that entering / leaving are scheduling points
  class PointCM:
    def __init__(self, cm):
      self.cm = cm
    def __enter__(self):
      s.point(tid, 'enter')
      return self.cm.__enter__()
    def __exit__(self, *exc):
      s.point(tid, 'exit')
      return self.cm.__exit__(*exc)
  ms = []
  for m in mgrs:
    mm = Mgr(m.name, (lambda a, m=m: PointCM(m.enter(a))), m.args, m.observe, m.model, m.default)
    ms.append(mm)
  def obs(x):
    s.point(tid, 'observe')
    return observe_all(x)
  return execute(parse_shape(prog[0]), thread_assign(prog, ms), ms, Rec(), None, 'thread', check_model=False, observe=obs)


DYN_FILES = ('core/hyper/dynamic_evaluation.py',)


def dyn_apply_item(rec, item):
  """Two threads apply different decisions to ONE traced (per-thread) dynamic-evaluation context: each sees its own."""
  prefix, bound, nested = item

  def fun():
    return pg.oneof([10, 20, 30]) + pg.oneof([1, 2, 3])

  ctx = pg.hyper.trace(fun)
  results = [None, None]

  def body(i):
    def run():
      d = [2 * i, 2 - 2 * i]
      if nested and i == 0:
        # the same context applied again inside its own scope: the outer decisions come back afterwards
        with ctx.apply(d):
          a = pg.oneof([10, 20, 30])
          with ctx.apply([1, 1]):
            inner = fun()
          b = pg.oneof([1, 2, 3])
        results[i] = (a + b, inner)
      else:
        with ctx.apply(d):
          results[i] = (fun(), None)
    return run

  s = sched.Scheduler([body(0), body(1)], prefix, DYN_FILES)
  s.run()
  rec.evals += 1
  rec.trans += len(s.points)
  tr = dict(kind='dyn-apply', prefix=s.choices()[:len(prefix)], nested=nested)
  if s.divergence:
    raise RuntimeError(f'schedule replay diverged: {s.divergence}')
  want = [(10 + 3, 22 if nested else None), (30 + 1, None)]
  ok = True
  for i in (0, 1):
    if s.errors[i] is not None:
      rec.viol('dynamic-evaluation-context/thread-raises', f'schedule {[(k, c) for k, c in enumerate(s.choices()) if c]}: thread {i} '
               f'raised {s.errors[i][0]}: {s.errors[i][1]}', tr)
      ok = False
    elif results[i] != want[i]:
      rec.viol('dynamic-evaluation-context/decisions-of-another-thread', f'schedule {[(k, c) for k, c in enumerate(s.choices()) if c]}: '
               f'thread {i} applied decisions {[2 * i, 2 - 2 * i]} and evaluated to {results[i]!r}, expected {want[i]!r}', tr)
      ok = False
  if ok:
    rec.nt(('dyn-apply', nested, tuple((k, c) for k, c in enumerate(s.choices()) if c)))
  return dict(succ=sched.successors(s, len(prefix), bound), ok=ok)


def explore_dyn_apply(ctx, nested, bound, cap):
  level, total = [[]], 0
  for depth in range(bound + 1):
    res = ctx.pmap(dyn_apply_item, [(p, bound, nested) for p in level], chunk=8)
    total += len(level)
    nxt = []
    for _, r in res:
      if r and r['ok']:
        nxt += r['succ']
    if depth == bound or not nxt:
      break
    if total + len(nxt) > cap:
      ctx.cap(f'dyn-apply nested={nested}: cap {cap} reached')
      nxt = nxt[:max(0, cap - total)]
    level = nxt
  return total


def explore_threads(ctx, pi, pj, mode, bound, cap):
  level = [[]]
  total = 0
  for depth in range(bound + 1):
    res = ctx.pmap(thread_item, [(pi, pj, p, bound, mode) for p in level], chunk=8)
    total += len(level)
    nxt = []
    for _, r in res:
      if r and r['ok']:
        nxt += r['succ']
    if depth == bound or not nxt:
      break
    if total + len(nxt) > cap:
      ctx.cap(f'threads {pi},{pj} {mode}: cap {cap} reached')
      nxt = nxt[:max(0, cap - total)]
    level = nxt
  return total


def run(ctx):
  # The thorough tier runs the plan of the quick tier: two larger plans (all manager pairs with three scopes, all
  # thread-program pairs at 3 / 2 preemptions) did not finish within 40 minutes or were killed by the sandbox, and there
  # was no time left to size an intermediate one (see DESIGN.md section 3).
  deepen = False
  global CATALOGUE
  CATALOGUE = catalogue()
  n = len(CATALOGUE)
  ctx.rule = ('(a) every well-nested program with up to 3 scopes (all 8 tree shapes) over one manager (all argument values, every '
              'subset of blocks left by exception) and over every pair of the 16 thread-local managers: at every program point the '
              'observation of every manager equals its documented nesting rule (innermost / outermost / cascade / merge / '
              'transitive), and after every exit the observation vector of ALL managers equals the one taken before the matching '
              'enter; process-wide managers: restoration only; (b) two threads running such programs: every interleaving at event '
              'granularity (enter / observe / exit) and every schedule with <= 1 preemption at statement granularity inside the '
              'thread-local, flags, contextual, detour, permission, formatting, timing and dynamic-evaluation modules: each thread observes '
              'exactly what it observes alone; two threads applying different decisions to one traced dynamic-evaluation context '
              '(also re-entered) under every schedule with <= 1 preemption; distinct_nontrivial = passing programs + distinct passing schedules')
  items = [(i, i, 'quick') for i in range(n)] + [(i, j, 'quick') for i in range(n) for j in range(i + 1, n)
                                                  if 'view_options' not in (CATALOGUE[i].name, CATALOGUE[j].name) or deepen]
  ctx.pmap(seq_item, items, chunk=1)
  ctx.pmap(pw_item, [0], chunk=1)
  ctx.note('managers', [m.name for m in CATALOGUE] + [m.name for m in process_wide()])
  pairs = [(0, 1), (2, 3), (4, 5), (6, 7), (7, 1), (8, 8)] if not deepen else \
      [(0, 1), (2, 3), (4, 5), (6, 7), (7, 1), (8, 8), (0, 2), (3, 5), (1, 8)]
  tot = 0
  for pi, pj in pairs:
    tot += explore_threads(ctx, pi, pj, 'events', 2 if not deepen else 3, 3000 if not deepen else 4000)
    tot += explore_threads(ctx, pi, pj, "lines", 1 if not deepen else 2, 3000 if not deepen else 3000)
  for nested in (False, True):
    tot += explore_dyn_apply(ctx, nested, 1 if not deepen else 2, 1500 if not deepen else 4000)
  ctx.states += len(items) + tot
  ctx.note('thread_schedules', tot)
  ctx.sample(dict(shape='(X(X)(X))', program='as_sealed(True){ as_sealed(None)!; as_sealed(False) }', meaning='! = left by exception'))
  ctx.assumptions += ['2 threads; 3-4 threads are not explored', 'view_options is observed behaviourally / model-free only; timing scopes are observed through a probe scope']


def replay(rec, data):
  global CATALOGUE
  CATALOGUE = catalogue()
  k = data.get('kind')
  if k == 'program':
    execute(parse_shape(data['shape']), [tuple(a) for a in data['assign']], CATALOGUE, rec, data, 'replay')
  elif k == 'process-wide':
    execute(parse_shape(data['shape']), [tuple(a) for a in data['assign']], process_wide(), rec, data, 'replay')
  elif k == 'dyn-apply':
    dyn_apply_item(rec, (data['prefix'], 0, data['nested']))
  else:
    thread_item(rec, (data['programs'][0], data['programs'][1], data['prefix'], 0, data['mode']))
