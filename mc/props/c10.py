"""C10: path addressing is exact (E2 enumeration; E1 closure for KeyPathSet)."""
from __future__ import annotations

import itertools

import pyglove as pg

from mc import statespace

KeyPath = pg.KeyPath
KeyPathSet = pg.utils.KeyPathSet


# ---------------------------------------------------------------------------
# Part A: the parser as a state machine (all strings over a small alphabet)
# ---------------------------------------------------------------------------
ALPHA = 'a0-.[]'


def parse_block(rec, item):
  """All strings of one length with a fixed prefix."""
  prefix, n = item
  for tail in itertools.product(ALPHA, repeat=n - len(prefix)):
    s = prefix + ''.join(tail)
    rec.evals += 1
    try:
      p = KeyPath.parse(s)
    except ValueError:
      rec.stat('parse:ValueError')
      continue
    except Exception as e:  # pylint: disable=broad-except
      rec.viol(f'parse-raises-{type(e).__name__}', f'KeyPath.parse({s!r}) raises {type(e).__name__}: {e}', dict(kind='parse', s=s))
      continue
    rec.stat('parse:ok')
    keys = list(p.keys)
    if not _balanced_keys(keys):
      continue      # a key with unbalanced brackets cannot be printed unambiguously (outside the claim)
    try:
      q = KeyPath.parse(str(p))
    except Exception as e:  # pylint: disable=broad-except
      rec.viol('printed-path-does-not-parse', f'parse({s!r}) = keys {keys!r} prints as {str(p)!r}, which fails to parse: {e}',
               dict(kind='parse', s=s))
      continue
    if list(q.keys) != keys or [type(k) for k in q.keys] != [type(k) for k in keys]:
      rec.viol('parse-print-parse-differs', f'parse({s!r}) = keys {keys!r}, printed {str(p)!r}, re-parsed keys {list(q.keys)!r}',
               dict(kind='parse', s=s))
    else:
      rec.nt(tuple(keys))


def _balanced(k):
  d = 0
  for c in k:
    if c == '[':
      d += 1
    elif c == ']':
      d -= 1
      if d < 0:
        return False
  return d == 0


def _balanced_keys(keys):
  return all(isinstance(k, int) or (isinstance(k, str) and k != '' and _balanced(k)) for k in keys)


# ---------------------------------------------------------------------------
# Part B: key sequences: print/parse round trip, arithmetic, ordering
# ---------------------------------------------------------------------------
KEYS = ('a', 'b', '0', '-1', 'a.b', '[0]', 'a[0]', 'é', ' x', '1.5', '-', 'a b', 0, 1, -1, 10, 2)


def all_seqs(maxlen, keys=KEYS):
  out = [()]
  for n in range(1, maxlen + 1):
    out += list(itertools.product(keys, repeat=n))
  return out


def seq_item(rec, seqs):
  for seq in seqs:
    rec.evals += 1
    tr = dict(kind='seq', keys=list(seq))
    p = KeyPath(list(seq))
    if list(p.keys) != list(seq):
      rec.viol('constructor-keys', f'KeyPath({list(seq)!r}).keys = {p.keys!r}', tr)
      continue
    s = str(p)
    try:
      q = KeyPath.parse(s)
    except Exception as e:  # pylint: disable=broad-except
      rec.viol('roundtrip-parse-raises', f'keys {list(seq)!r} print as {s!r} which does not parse: {type(e).__name__}', tr)
      continue
    if list(q.keys) != list(seq) or [type(k) for k in q.keys] != [type(k) for k in seq]:
      rec.viol('roundtrip-keys-differ/' + _keyclass(seq, q.keys),
               f'keys {list(seq)!r} print as {s!r} and parse back to {list(q.keys)!r}', tr)
      continue
    if q != p or hash(q) != hash(p) or p.path != s or repr(p) != repr(q):
      rec.viol('roundtrip-not-equal', f'keys {list(seq)!r}: parse(str(p)) != p', tr)
    # formatting options must not influence one another: lossy form first, then the canonical one
    p2 = KeyPath(list(seq))
    lossy = p2.path_str(False)
    if str(p2) != s or p2.path != s or hash(p2) != hash(p) or p2 != p or p2.path_str(False) != lossy or p2.path_str(True) != s:
      rec.viol('format-call-order', f'keys {list(seq)!r}: after path_str(False)={lossy!r}, str() gives {str(p2)!r} instead of {s!r}', tr)
    if len(p) != len(seq) or p.depth != len(seq) or p.is_root != (len(seq) == 0):
      rec.viol('len-depth', f'keys {list(seq)!r}: len={len(p)} depth={p.depth}', tr)
    if seq:
      if p.key != seq[-1] or list(p.parent.keys) != list(seq[:-1]):
        rec.viol('parent-key', f'keys {list(seq)!r}: key={p.key!r} parent={p.parent.keys!r}', tr)
      # concatenation with a key / with a KeyPath / relative subtraction / prefix test
      for cut in range(len(seq) + 1):
        a, b = KeyPath(list(seq[:cut])), KeyPath(list(seq[cut:]))
        c = a + b
        if list(c.keys) != list(seq):
          rec.viol('concat', f'{list(seq[:cut])!r} + {list(seq[cut:])!r} gives {c.keys!r}', tr)
        try:
          r = p - a
          if list(r.keys) != list(seq[cut:]):
            rec.viol('subtract', f'{list(seq)!r} - {list(seq[:cut])!r} gives {r.keys!r}', tr)
        except Exception as e:  # pylint: disable=broad-except
          rec.viol('subtract-raises', f'{list(seq)!r} - {list(seq[:cut])!r} raises {type(e).__name__}', tr)
        if not p.is_relative_to(a):
          rec.viol('is_relative_to', f'{list(seq)!r} is not relative to its prefix {list(seq[:cut])!r}', tr)
      k = KeyPath(seq[-1], KeyPath(list(seq[:-1])))
      if list(k.keys) != list(seq):
        rec.viol('constructor-with-parent', f'KeyPath({seq[-1]!r}, parent) gives {k.keys!r}', tr)
    rec.nt(seq)
  rec.trans += len(seqs)


def _keyclass(seq, got):
  for a, b in zip(seq, got):
    if a != b or type(a) is not type(b):
      if isinstance(a, str):
        return 'digits-string' if a.lstrip('-').isdigit() else 'special-chars' if any(c in a for c in '.[]') else 'other-string'
      return 'int'
  return 'length'


def order_item(rec, rows):
  """Total order consistent with equality: all pairs / triples of a set of paths."""
  paths = [KeyPath(list(s)) for s in ORDER_SEQS]
  n = len(paths)
  for i in rows:
    a = paths[i]
    for j in range(n):
      b = paths[j]
      rec.evals += 1
      try:
        lt, gt, le, ge, eq = a < b, a > b, a <= b, a >= b, a == b
      except Exception as e:  # pylint: disable=broad-except
        rec.viol('order-raises', f'{a.keys!r} vs {b.keys!r}: {type(e).__name__}', dict(kind='order', a=list(ORDER_SEQS[i]), b=list(ORDER_SEQS[j])))
        continue
      if int(lt) + int(gt) + int(eq) != 1 or le != (lt or eq) or ge != (gt or eq) or (eq != (list(a.keys) == list(b.keys))):
        rec.viol('order-trichotomy/' + _mix(a, b), f'{a.keys!r} vs {b.keys!r}: lt={lt} eq={eq} gt={gt} le={le} ge={ge}',
                 dict(kind='order', a=list(ORDER_SEQS[i]), b=list(ORDER_SEQS[j])))
      if lt and (b < a):
        rec.viol('order-antisymmetry', f'{a.keys!r} < {b.keys!r} and the reverse', dict(kind='order', a=list(ORDER_SEQS[i]), b=list(ORDER_SEQS[j])))
      if lt:
        for k in range(n):
          c = paths[k]
          if (b < c) and not (a < c):
            rec.viol('order-transitivity/' + _mix(a, b, c), f'{a.keys!r} < {b.keys!r} < {c.keys!r} but not {a.keys!r} < {c.keys!r}',
                     dict(kind='order', a=list(ORDER_SEQS[i]), b=list(ORDER_SEQS[j]), c=list(ORDER_SEQS[k])))
          elif b < c:
            rec.nt((i, j, k))
  rec.trans += len(rows) * n


def _mix(*paths):
  kinds = set()
  for p in paths:
    for k in p.keys:
      kinds.add('int' if isinstance(k, int) else 'digit-str' if k.lstrip('-').isdigit() else 'str')
  return '+'.join(sorted(kinds))


ORDER_SEQS = None


# ---------------------------------------------------------------------------
# Part C: traversal / query / rebind-by-function / flatten-canonicalize
# ---------------------------------------------------------------------------
TKEYS = ('a', 'a.b', '0', '[0]', 'é', 5, '$')        # dicts admit integer keys (any value, not only small ones)


def values(depth, symbolic):
  """All nested values (dicts over TKEYS with <= 2 keys, lists of length <= 2) up to depth."""
  leaves = [0, 'x']
  level = list(leaves)
  for _ in range(depth):
    nxt = list(leaves)
    pool = level[:6]
    for n in (1, 2):
      for ks in itertools.combinations(TKEYS, n):
        for vs in itertools.product(pool, repeat=n):
          nxt.append(('D', tuple(zip(ks, vs))))
    for n in (0, 1, 2):
      for vs in itertools.product(pool, repeat=n):
        nxt.append(('L', vs))
    level = nxt
  return [v for v in level if isinstance(v, tuple)]


def build(tok, symbolic):
  if isinstance(tok, tuple) and tok[0] == 'D':
    d = {k: build(v, symbolic) for k, v in tok[1]}
    return pg.Dict(d) if symbolic else d
  if isinstance(tok, tuple) and tok[0] == 'L':
    l = [build(v, symbolic) for v in tok[1]]
    return pg.List(l) if symbolic else l
  return tok


def nodes_of(v, keys=()):
  out = [(keys, v)]
  if isinstance(v, dict):
    items = v.sym_items() if isinstance(v, pg.Dict) else v.items()
    for k, c in items:
      out += nodes_of(c, keys + (k,))
  elif isinstance(v, list):
    items = v.sym_values() if isinstance(v, pg.List) else v
    for i, c in enumerate(items):
      out += nodes_of(c, keys + (i,))
  return out


def tree_item(rec, toks):
  for tok, symbolic in toks:
    rec.evals += 1
    tr = dict(kind='tree', value=tok, symbolic=symbolic)
    v = build(tok, symbolic)
    truth = nodes_of(v)
    # pg.traverse: every node exactly once, with the path that leads to it
    seen = []
    pg.traverse(v, lambda k, x, p: seen.append((tuple(k.keys), x)) or pg.TraverseAction.ENTER)
    if [k for k, _ in seen] != [k for k, _ in truth] or any(a is not b for (_, a), (_, b) in zip(seen, truth)
                                                            if not isinstance(a, (int, str))):
      rec.viol('traverse-visit-log', f'pg.traverse visited {[k for k, _ in seen]!r}, expected {[k for k, _ in truth]!r}', tr)
      continue
    seen_u = []
    pg.utils.traverse(v, lambda k, x: seen_u.append(tuple(k.keys)) or True)
    if seen_u != [k for k, _ in truth][1:] and seen_u != [k for k, _ in truth]:
      rec.viol('utils-traverse-visit-log', f'utils.traverse visited {seen_u!r}', tr)
    for keys, node in truth:
      p = KeyPath(list(keys))
      try:
        got = p.query(v)
      except Exception as e:  # pylint: disable=broad-except
        rec.viol(f'query-by-path-raises:{type(e).__name__}', f'KeyPath({list(keys)!r}).query(root) raises for a node that traversal reports: {e}', tr)
        continue
      if got is not node and not (isinstance(node, (int, str)) and got == node):
        rec.viol('query-by-path', f'KeyPath({list(keys)!r}).query(root) is not the node stored there', tr)
      # the printed path must address the same node (rebind-by-function relies on it)
      try:
        got2 = KeyPath.parse(str(p)).query(v)
      except Exception as e:  # pylint: disable=broad-except
        got2 = e
      if got2 is not node and not (isinstance(node, (int, str)) and got2 == node):
        rec.viol('query-by-printed-path', f'parse({str(p)!r}).query(root) is not the node at {list(keys)!r}: {got2!r}', tr)
      if symbolic and isinstance(node, pg.Symbolic):
        if list(node.sym_path.keys) != list(keys):
          rec.viol('sym_path', f'node at {list(keys)!r} reports {node.sym_path!r}', tr)
    # pg.query returns every node keyed by its printed path
    q = pg.query(v, where=lambda x: True, enter_selected=True)
    want = {str(KeyPath(list(k))) for k, _ in truth}
    if set(q.keys()) != want:
      rec.viol('pg.query-paths', f'pg.query gives paths {sorted(q.keys())!r}, expected {sorted(want)!r}', tr)
    if symbolic:
      # rebind by function: change exactly the int leaves
      leaf_paths = [k for k, x in truth if isinstance(x, int)]
      if leaf_paths:
        w = build(tok, True)
        w.rebind(lambda k, x: 7 if isinstance(x, int) else x)
        after = nodes_of(w)
        if [k for k, _ in after] != [k for k, _ in truth]:
          rec.viol('rebind-by-function-shape', f'rebind(fn) changed the shape: {[k for k, _ in after]!r}', tr)
        else:
          for (k, old), (_, new) in zip(truth, after):
            if isinstance(old, int) and new != 7 or isinstance(old, str) and new != old:
              rec.viol('rebind-by-function-targets', f'rebind(fn): leaf at {list(k)!r} was {old!r} is now {new!r}', tr)
              break
    else:
      # flatten / canonicalize are inverse on JSON-like nestings
      # flatten_complex_keys=False is the documented lossless mode (keys holding '.'/'[' are bracket-quoted)
      flat = pg.utils.flatten(v, flatten_complex_keys=False)
      if isinstance(v, dict) or isinstance(v, list):
        try:
          back = pg.utils.canonicalize(flat)
        except Exception as e:  # pylint: disable=broad-except
          back = e
        nonempty = _no_empty_containers(v)
        if nonempty and back != v:
          rec.viol('canonicalize-flatten/' + _fkey(v), f'canonicalize(flatten({v!r})) = {back!r} (flat form {flat!r})', tr)
        elif nonempty:
          flat2 = pg.utils.flatten(back, flatten_complex_keys=False)
          if flat2 != flat:
            rec.viol('flatten-canonicalize', f'flatten(canonicalize(f)) != f for f={flat!r}', tr)
    rec.nt(repr(tok) + str(symbolic))
  rec.trans += len(toks)


def _no_empty_containers(v):
  if isinstance(v, dict):
    return bool(v) and all(_no_empty_containers(c) for c in v.values())
  if isinstance(v, list):
    return bool(v) and all(_no_empty_containers(c) for c in v)
  return True


def _fkey(v):
  ks = set()
  def rec(x):
    if isinstance(x, dict):
      for k, c in x.items():
        ks.add('dotted-key' if '.' in k else 'bracket-key' if '[' in k else 'digit-key' if k.isdigit() else 'plain')
        rec(c)
    elif isinstance(x, list):
      for c in x:
        rec(c)
  rec(v)
  for c in ('dotted-key', 'bracket-key', 'digit-key'):
    if c in ks:
      return c
  return 'plain'


# ---------------------------------------------------------------------------
# Part D: KeyPathSet against a Python set (E1 to closure)
# ---------------------------------------------------------------------------
UNIV = (('a',), ('a', 'b'), ('a', 0), ('c',), ('c', 'a.b'), (0,))
UNIV_DOLLAR = (('a',), ('$',), ('a', '$'))      # '$' is an ordinary key (it is also the end marker of the trie)
PREFIXES = ((), ('a',), ('c',), ('a', 'b'), ('z',), (0,), ('c', 'a.b'))


def kp(t):
  return KeyPath(list(t))


def mkset(ts):
  return KeyPathSet([kp(t) for t in ts])


class SetSpace(statespace.Space):
  name = 'keypathset'

  def __init__(self, univ=None, tag=''):
    self.univ = univ or UNIV
    self.tag = tag           # root-cause tag for the signatures of this universe
    self.name = 'keypathset' + tag

  def initials(self):
    if self.tag:
      return [((), ())]
    return [((), ()), ((('a',),), (('a', 'b'), ('c',)))]

  def build(self, init):
    a, b = init
    return dict(x=mkset(a), m=set(a), y=mkset(b), n=set(b))

  def canon(self, w):
    return (tuple(sorted(w['m'], key=repr)), tuple(sorted(w['n'], key=repr)),
            tuple(sorted((tuple(p.keys) for p in w['x']), key=repr)), tuple(sorted((tuple(p.keys) for p in w['y']), key=repr)))

  def ops(self, w):
    ops = []
    for t in self.univ:
      ops += [('add', t), ('remove', t), ('addy', t), ('removey', t)]
    ops += [('update',), ('union',), ('plus',), ('intersection_update',), ('intersection',), ('difference_update',),
            ('difference',), ('clear',), ('copy',), ('swap',)]
    for t in (('a',), ('c',)):
      ops.append(('subtree', t))
    return ops

  def apply(self, w, op, rec, trace):
    x, m, y, n = w['x'], w['m'], w['y'], w['n']
    k = op[0]
    res = mres = None
    try:
      if k == 'add':
        res = x.add(kp(op[1])); mres = op[1] not in m; m.add(op[1])
      elif k == 'remove':
        res = x.remove(kp(op[1])); mres = op[1] in m; m.discard(op[1])
      elif k == 'addy':
        y.add(kp(op[1])); n.add(op[1])
      elif k == 'removey':
        y.remove(kp(op[1])); n.discard(op[1])
      elif k == 'update':
        x.update(y); m |= n
      elif k == 'union':
        r = x.union(y); self._expect(rec, r, m | n, op, trace); w['x'], w['m'] = r, m | n
      elif k == 'plus':
        r = x + y; self._expect(rec, r, m | n, op, trace); w['x'], w['m'] = r, m | n
      elif k == 'intersection_update':
        x.intersection_update(y); m &= n
      elif k == 'intersection':
        r = x.intersection(y); self._expect(rec, r, m & n, op, trace); w['x'], w['m'] = r, m & n
      elif k == 'difference_update':
        x.difference_update(y); m -= n
      elif k == 'difference':
        r = x.difference(y); self._expect(rec, r, m - n, op, trace); w['x'], w['m'] = r, m - n
      elif k == 'clear':
        x.clear(); m.clear()
      elif k == 'copy':
        r = x.copy(); w['x'] = r
      elif k == 'swap':
        w['x'], w['y'], w['m'], w['n'] = y, x, n, m
      elif k == 'subtree':
        r = x.subtree(kp(op[1]))
        want = {t[len(op[1]):] for t in m if t[:len(op[1])] == op[1]}
        if want or r:
          self._expect(rec, r if r else KeyPathSet(), want, op, trace)
    except Exception as e:  # pylint: disable=broad-except
      self._viol(rec, f'keypathset-raises/{k}', f'{op!r} on {sorted(m, key=repr)!r} raises {type(e).__name__}: {e}', trace)
      return True
    rec.stat(f'set:{k}')
    bad = False
    if k in ('add', 'remove') and res is not None and bool(res) != bool(mres):
      self._viol(rec, f'keypathset-return/{k}', f'{op!r} returned {res!r}, a set would report {mres!r}', trace)
      bad = True
    try:
      bad = self._reads(w, op, k, rec, trace) or bad
    except Exception as e:  # pylint: disable=broad-except
      self._viol(rec, f'keypathset-read-raises:{type(e).__name__}/{k}', f'after {op!r} on {sorted(w["m"], key=repr)!r}: reading the set raises {e}', trace)
      bad = True
    if not bad:
      rec.nt((k, repr(sorted(w['m'], key=repr)), repr(sorted(w['n'], key=repr))))
    return bad

  def _reads(self, w, op, k, rec, trace):
    bad = False
    for name, s, model in (('x', w['x'], w['m']), ('y', w['y'], w['n'])):
      got = {tuple(p.keys) for p in s}
      if got != model:
        self._viol(rec, f'keypathset-content/{k}', f'after {op!r}: {name} holds {sorted(got, key=repr)!r}, a set holds '
                 f'{sorted(model, key=repr)!r}', trace)
        bad = True
        continue
      for t in self.univ:
        if (kp(t) in s) != (t in model):
          self._viol(rec, f'keypathset-contains/{k}', f'after {op!r}: {t!r} in {name} gives {kp(t) in s}', trace)
          bad = True
      for pfx in (PREFIXES if not self.tag else self.univ):
        if not pfx:
          continue      # the trivial prefix of an empty set is not specified
        want = any(t[:len(pfx)] == pfx for t in model)
        if bool(s.has_prefix(kp(pfx))) != want:
          self._viol(rec, f'keypathset-has_prefix/{k}', f'after {op!r}: has_prefix({pfx!r}) gives {s.has_prefix(kp(pfx))}, '
                   f'content {sorted(model, key=repr)!r}', trace)
          bad = True
      if bool(s) != bool(model) or (s == mkset(sorted(model, key=repr))) is False:
        self._viol(rec, f'keypathset-eq-bool/{k}', f'after {op!r}: bool/== disagree with the set model', trace)
        bad = True
    return bad

  def _viol(self, rec, sig, what, trace):
    """The '$' universe has one root cause (the same operations on other keys are covered by the main universe)."""
    if self.tag:
      # this universe differs from the main one only by the key '$' (also probed by every read): one root cause
      sig = 'keypathset/dollar-key-collides-with-trie-end-marker'
    rec.viol(sig, what, trace)

  def _expect(self, rec, r, want, op, trace):
    got = {tuple(p.keys) for p in r}
    if got != set(want):
      self._viol(rec, f'keypathset-result/{op[0]}', f'{op!r} returned {sorted(got, key=repr)!r}, a set gives {sorted(want, key=repr)!r}', trace)


# ---------------------------------------------------------------------------
def chunks(seq, n):
  return [seq[i:i + n] for i in range(0, len(seq), n)]


def run(ctx):
  global ORDER_SEQS
  ctx.rule = ('A: every string over {a,0,-,.,[,]} up to the length bound through KeyPath.parse (ValueError or a path whose '
              'printed form parses back to the same keys); B: every key sequence up to length 3 over 17 keys (dots, brackets, '
              'digits-only strings, negative numbers, unicode, spaces, ints): print/parse, +, -, parent, is_relative_to, '
              'len/depth, and a total order on all pairs/triples; C: every nested dict/list value of the grammar, plain and '
              'symbolic: traverse visit log, query by path and by printed path, pg.query, rebind by function, '
              'flatten/canonicalize; D: KeyPathSet vs Python set, BFS to closure over two sets on a 6-path universe; '
              'distinct_nontrivial = distinct passing cases')
  maxlen = 7 if ctx.thorough else 6
  blocks = []
  for n in range(0, maxlen + 1):
    if n <= 3:
      blocks.append(('', n))
    else:
      for pre in itertools.product(ALPHA, repeat=2):
        blocks.append((''.join(pre), n))
  ctx.pmap(parse_block, blocks, chunk=1)
  ctx.note('parser_strings', sum(len(ALPHA) ** n for n in range(maxlen + 1)))
  seqs = all_seqs(3)
  ctx.pmap(seq_item, chunks(seqs, 200), chunk=1)
  ctx.note('key_sequences', len(seqs))
  okeys = ('a', 'b', '0', '10', '2', '-1', 'a.b', 0, 2, 10, -1)
  ORDER_SEQS = all_seqs(2 if not ctx.thorough else 2, okeys)
  ctx.pmap(order_item, chunks(list(range(len(ORDER_SEQS))), 4), chunk=1)
  ctx.note('ordered_paths', len(ORDER_SEQS))
  vals = values(2 if not ctx.thorough else 2, False)
  if not ctx.thorough:
    vals = vals[::3]
  toks = [(v, s) for v in vals for s in (False, True)]
  ctx.pmap(tree_item, chunks(toks, 100), chunk=1)
  ctx.note('nested_values', len(toks))
  n = statespace.explore(ctx, SetSpace(), max_depth=30)
  n += statespace.explore(ctx, SetSpace(UNIV_DOLLAR, '-dollar'), max_depth=3)
  ctx.note('keypathset_states', n)
  ctx.states += len(seqs) + len(toks)
  ctx.sample(dict(keys=['a.b', 0, '0', '[0]'], printed=str(KeyPath(['a.b', 0, '0', '[0]']))))
  ctx.assumptions += ['string keys are non-empty with balanced brackets (as the property states)',
                      'flatten/canonicalize is checked on JSON-like nestings without empty containers; a dict with integer '
                      'keys is indistinguishable from a list in path-keyed form by construction and is left out']


def replay(rec, data):
  global ORDER_SEQS
  k = data.get('kind')
  if k == 'parse':
    global ALPHA
    s = data['s']
    old = ALPHA
    parse_block_single(rec, s)
  elif k == 'seq':
    seq_item(rec, [tuple(data['keys'])])
  elif k == 'order':
    ORDER_SEQS = [tuple(data[x]) for x in ('a', 'b', 'c') if x in data]
    order_item(rec, list(range(len(ORDER_SEQS))))
  elif k == 'tree':
    tree_item(rec, [(statespace._tup(data['value']), data['symbolic'])])
  else:
    sp = SetSpace(UNIV_DOLLAR, '-dollar') if data.get('space') == 'keypathset-dollar' else SetSpace()
    statespace.replay_trace(sp, rec, dict(data, init=statespace._tup(data['init'])))


def parse_block_single(rec, s):
  global ALPHA
  old = ALPHA
  try:
    ALPHA = ''
    parse_block(rec, (s, len(s)))
  finally:
    ALPHA = old
