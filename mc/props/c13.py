"""C13: hyper values: decode and encode are mutually inverse and side-effect free (E2)."""
from __future__ import annotations

import itertools

import pyglove as pg

from mc import dnaspecs as D
from mc import fixtures as fx
from mc.props.c11 import shape

C = D.C
HOSTS = ('dict', 'list', 'obj')


# ---------------------------------------------------------------------------
# template construction from a DNASpec descriptor + independent reference decode
# ---------------------------------------------------------------------------
class Tags:
  def __init__(self):
    self.n = 0

  def next(self):
    self.n += 1
    return self.n


def build_space(d, host, tags, as_candidate=False):
  """Container holding one placeholder per element of the space."""
  elems = [build_elem(e, host, tags) for e in d[1]]
  tag = f't{tags.next()}' if as_candidate else None
  if host == 'dict':
    out = {f'x{i}': e for i, e in enumerate(elems)}
    if tag:
      out['tag'] = tag
    return pg.Dict(out)
  if host == 'list':
    return pg.List(([tag] if tag else []) + elems)
  return fx.Node(x=elems[0] if len(elems) == 1 else pg.List(elems), items=[tag] if tag else [], d={})


def build_cand(c, host, tags):
  if c[0] == 'c':
    return tags.next() * 10          # distinct constants
  return build_space(c, host, tags, as_candidate=True)


def build_elem(e, host, tags):
  if e[0] == 'one':
    return pg.oneof([build_cand(c, host, tags) for c in e[1]])
  if e[0] == 'many':
    return pg.manyof(e[1], [build_cand(c, host, tags) for c in e[2]], distinct=e[3], sorted=e[4])
  if e[0] == 'float':
    return pg.floatv(e[1], e[2])
  raise ValueError(e)


def ref_space(d, host, tags, lit, as_candidate=False):
  """Reference decode: the plain value the template denotes under the literal."""
  elems = d[1]
  lits = [lit] if len(elems) == 1 else list(lit)
  vals = [ref_elem(e, host, tags, l) for e, l in zip(elems, lits)]
  tag = f't{tags.next()}' if as_candidate else None
  if host == 'dict':
    out = {f'x{i}': v for i, v in enumerate(vals)}
    if tag:
      out['tag'] = tag
    return out
  if host == 'list':
    return ([tag] if tag else []) + vals
  return ('Node', vals[0] if len(vals) == 1 else vals, [tag] if tag else [])


def ref_cands(cands, host, tags):
  """Evaluates every candidate lazily (tags must be consumed in construction order)."""
  out = []
  for c in cands:
    if c[0] == 'c':
      out.append(('const', tags.next() * 10))
    else:
      # reserve the tags this candidate consumes by building with a private counter snapshot
      start = tags.n
      probe = Tags()
      probe.n = start
      build_space(c, host, probe, as_candidate=True)
      out.append(('space', c, start))
      tags.n = probe.n
  return out


def ref_pick(entry, host, lit):
  if entry[0] == 'const':
    return entry[1]
  _, c, start = entry
  t = Tags()
  t.n = start
  return ref_space(c, host, t, lit[1], as_candidate=True)


def ref_elem(e, host, tags, lit):
  if e[0] == 'float':
    return lit
  if e[0] == 'one' or (e[0] == 'many' and e[1] == 1):
    cands = ref_cands(e[1] if e[0] == 'one' else e[2], host, tags)
    i = lit if isinstance(lit, int) else lit[0]
    v = ref_pick(cands[i], host, lit)
    return v if e[0] == 'one' else [v]       # manyof(1, ...) denotes a list of one value
  cands = ref_cands(e[2], host, tags)
  return [ref_pick(cands[l if isinstance(l, int) else l[0]], host, l) for l in lit]


def plain(v):
  if isinstance(v, fx.Node):
    return ('Node', plain(v.sym_getattr('x')), plain(v.sym_getattr('items')))
  if isinstance(v, dict):
    return {k: plain(x) for k, x in (v.sym_items() if isinstance(v, pg.Dict) else v.items())}
  if isinstance(v, list):
    return [plain(x) for x in (v.sym_values() if isinstance(v, pg.List) else v)]
  return v


def has_hyper(v):
  found = []
  pg.traverse(v, lambda k, x, p: found.append(k) if isinstance(x, pg.hyper.HyperValue) else None)
  return found


def snapshot(v):
  return repr(pg.to_json(v))


def spec_item(rec, item):
  d, host, tier = item
  tr = dict(kind='template', spec=d, host=host)
  base = f'{host}/{shape(d)}'
  value = build_space(d, host, Tags())
  before = snapshot(value)
  t = pg.template(value)
  spec = t.dna_spec()
  finite = D.is_finite(d)
  lits = D.space_literals(d) if finite else _float_lits(d)
  if tier != 'thorough' and len(lits) > 12:
    lits = lits[:6] + lits[-6:]
  ok = True
  if finite and spec.space_size != D.size(d):
    rec.viol(f'space_size/{base}', f'template space_size {spec.space_size}, descriptor admits {D.size(d)}', tr); ok = False
  tsnap = snapshot(t.value)
  for lit in lits:
    rec.evals += 1
    trd = dict(tr, dna=lit)
    dna = pg.DNA(D.ctor(lit))
    try:
      v = t.decode(dna)
    except Exception as e:  # pylint: disable=broad-except
      rec.viol(f'decode-raises:{type(e).__name__}/{base}', f'decode({lit!r}): {e}', trd); ok = False
      continue
    left = has_hyper(v)
    if left or not pg.is_deterministic(v):
      rec.viol(f'placeholder-left/{base}', f'decode({lit!r}) still holds placeholders at {[str(k) for k in left]}', trd); ok = False
    want = ref_space(d, host, Tags(), lit)
    got = plain(v)
    if got != want:
      rec.viol(f'decode-differs-from-reference/{base}', f'decode({lit!r}) = {got!r}, the template denotes {want!r}', trd); ok = False
    v2 = t.decode(pg.DNA(D.ctor(lit)))
    if plain(v2) != got or (isinstance(v2, pg.Symbolic) and v2 is v):
      rec.viol(f'decode-not-repeatable/{base}', f'decoding {lit!r} twice gives {plain(v2)!r} then {got!r} (or the same object)', trd); ok = False
    try:
      back = t.encode(v)
      if back != pg.DNA(D.ctor(lit)):
        rec.viol(f'encode-not-inverse/{base}', f'encode(decode({lit!r})) = {back!r}', trd); ok = False
    except Exception as e:  # pylint: disable=broad-except
      rec.viol(f'encode-raises:{type(e).__name__}/{base}', f'encode(decode({lit!r})): {e}', trd); ok = False
    # an equal value whose dict keys were inserted in another order encodes to the same DNA
    if isinstance(v, pg.Dict) and len(v) >= 2:
      try:
        rv = pg.Dict({k: pg.clone(v.sym_getattr(k), deep=True) for k in reversed(list(v.sym_keys()))})
        back = t.encode(rv)
        if back != pg.DNA(D.ctor(lit)):
          rec.viol(f'encode-depends-on-key-order/{base}', f'decode({lit!r}) with its keys in reverse order encodes to {back!r}', trd); ok = False
      except Exception as e:  # pylint: disable=broad-except
        rec.viol(f'encode-raises:{type(e).__name__}/{base}', f'reordered decode({lit!r}): {e}', trd); ok = False
    try:
      m = pg.materialize(value, pg.DNA(D.ctor(lit)))
      if plain(m) != got:
        rec.viol(f'materialize-differs/{base}', f'materialize(..., {lit!r}) = {plain(m)!r}', trd); ok = False
    except Exception as e:  # pylint: disable=broad-except
      rec.viol(f'materialize-raises:{type(e).__name__}/{base}', f'{lit!r}: {e}', trd); ok = False
    # mutating the decoded value must not reach the template (no shared nodes)
    if isinstance(v, (pg.Dict, pg.List)) and len(v):
      try:
        k0 = next(iter(v.sym_keys()))
        v.rebind({k0: 'MUTATED'})
      except Exception:  # pylint: disable=broad-except
        pass
    if snapshot(t.value) != tsnap or snapshot(value) != before:
      rec.viol(f'template-modified/{base}', f'decode/encode of {lit!r} (or a write to the decoded value) changed the template', trd); ok = False
      tsnap = snapshot(t.value)
      before = snapshot(value)
    rec.trans += 1
  if finite and D.size(d) <= (200 if tier == 'thorough' else 40):
    try:
      allv = [repr(plain(x)) for x in pg.iter(value)]
      if len(allv) != D.size(d) or len(set(allv)) != len(allv):
        rec.viol(f'iter-count/{base}', f'pg.iter yields {len(allv)} values ({len(set(allv))} distinct), space has {D.size(d)}', tr); ok = False
      want_all = [repr(ref_space(d, host, Tags(), l)) for l in D.space_literals(d)]
      if sorted(allv) != sorted(want_all):
        rec.viol(f'iter-values/{base}', 'pg.iter does not yield exactly the values the template denotes', tr); ok = False
    except Exception as e:  # pylint: disable=broad-except
      rec.viol(f'iter-raises:{type(e).__name__}/{base}', str(e), tr); ok = False
    if snapshot(value) != before:
      rec.viol(f'template-modified-by-iter/{base}', 'pg.iter changed the hyper value', tr); ok = False
  if ok:
    rec.nt((repr(d), host))


def _float_lits(d):
  def lits(x):
    if x[0] == 'space':
      per = [lits(e) for e in x[1]]
      return list(per[0]) if len(per) == 1 else [list(t) for t in itertools.product(*per)]
    if x[0] == 'float':
      return [x[1], x[2], (x[1] + x[2]) / 4]
    if x[0] == 'one' or (x[0] == 'many' and x[1] == 1):
      cands = x[1] if x[0] == 'one' else x[2]
      out = []
      for i, c in enumerate(cands):
        out += [i] if c[0] == 'c' else [(i, s) for s in lits(c)]
      return out
    n, cands, distinct, srt = x[1], x[2], x[3], x[4]
    out = []
    for idx in itertools.product(range(len(cands)), repeat=n):
      if (distinct and len(set(idx)) != n) or (srt and list(idx) != sorted(idx)):
        continue
      per = [[i] if cands[i][0] == 'c' else [(i, s) for s in lits(cands[i])] for i in idx]
      out += [list(t) for t in itertools.product(*per)]
    return out
  return lits(d)


def typed_item(rec, _):
  """Placeholders bound to typed fields: every decoded value is accepted by the field spec; bad candidates are refused."""
  tr = dict(kind='typed')
  v = fx.Typed(n=pg.oneof([0, 1, 2]), s=pg.oneof(['a', None]), child=pg.oneof([None, fx.Node(x=pg.oneof([1, 2]))]))
  t = pg.template(v)
  n = 0
  for dna in t.dna_spec().iter_dna():
    x = t.decode(dna)
    n += 1
    rec.evals += 1
    try:
      fx.Typed(n=x.n, s=x.s, child=x.child)
    except Exception as e:  # pylint: disable=broad-except
      rec.viol('decoded-value-rejected-by-field-spec', f'{dna!r} decodes to {x!r} which its own class rejects: {e}', tr)
    if t.encode(x) != dna:
      rec.viol('encode-not-inverse/typed-object', f'encode(decode({dna!r})) = {t.encode(x)!r}', tr)
  if n != t.dna_spec().space_size:
    rec.viol('iter-count/typed-object', f'{n} vs {t.dna_spec().space_size}', tr)
  # a manyof whose number of choices can never satisfy the size bounds of the list field it is bound to
  @pg.members([('w', pg.typing.List(pg.typing.Int(), max_size=2, default=[])),
               ('m', pg.typing.List(pg.typing.Int(), min_size=2, default=[0, 0]))])
  class Sized(pg.Object):
    pass
  for label, mk in (('max_size', lambda: Sized(w=pg.manyof(3, [1, 2, 3, 4]))), ('min_size', lambda: Sized(m=pg.manyof(1, [1, 2, 3])))):
    try:
      x = mk()
    except (TypeError, ValueError):
      rec.stat('bad-candidate-refused')
      continue
    tt = pg.template(x)
    try:
      tt.decode(tt.dna_spec().first_dna())
      rec.stat('sized-manyof-decodes')
    except Exception as e:  # pylint: disable=broad-except
      rec.viol(f'bound-placeholder-cannot-be-decoded/{label}', f'a manyof was accepted by a list field whose {label} it can never meet: '
               f'decoding a valid DNA raises {type(e).__name__}: {e}', tr)
  for bad in (lambda: fx.Typed(n=pg.oneof([0, 5])), lambda: fx.Typed(n=pg.oneof([0, 'a'])), lambda: fx.Typed(s=pg.oneof([1, 'a'])),
              lambda: fx.Typed(n=pg.floatv(0.0, 1.0)), lambda: fx.Typed(n=pg.manyof(2, [0, 1, 2]))):
    try:
      bad()
      rec.viol('bad-candidate-accepted-at-binding', 'a placeholder whose candidate violates the field spec was accepted', tr)
    except (TypeError, ValueError):
      rec.stat('bad-candidate-refused')
  rec.trans += n
  rec.nt('typed')


def where_item(rec, item):
  """`where` filters: only the selected placeholders are decoded; the others are left in place."""
  host = item
  tr = dict(kind='where', host=host)
  d = ('space', (('one', (C, C, C)), ('many', 2, (C, C, C), True, False)))
  value = build_space(d, host, Tags())
  keep = lambda h: isinstance(h, pg.hyper.OneOf) and not isinstance(h, pg.hyper.ManyOf)
  t = pg.template(value, where=keep)
  if t.dna_spec().space_size != 3:
    rec.viol('where-space-size', f'{host}: filtered template has size {t.dna_spec().space_size}, expected 3', tr)
  before = snapshot(value)
  for i in range(3):
    v = t.decode(pg.DNA(i))
    left = has_hyper(v)
    rec.evals += 1
    rec.trans += 1
    if len(left) != 1:
      rec.viol('where-placeholders-left', f'{host}: decode({i}) leaves {[str(k) for k in left]}, exactly the filtered-out manyof is expected', tr)
    try:
      if t.encode(v) != pg.DNA(i):
        rec.viol('where-encode-not-inverse', f'{host}: encode(decode({i})) = {t.encode(v)!r}', tr)
    except Exception as e:  # pylint: disable=broad-except
      rec.viol(f'where-encode-raises:{type(e).__name__}', f'{host}: {e}', tr)
  if snapshot(value) != before:
    rec.viol('template-modified/where', f'{host}: decoding a filtered template changed the hyper value', tr)
  rec.nt(('where', host))


def _evolve_value():
  def node_transform(k, v, p):
    if isinstance(v, int):
      return v * 2 + 1
    if isinstance(v, str):
      return v + '_'
    return fx.Layer(units=8, act='gelu')

  def weights(mt, k, v, p):
    if p is None or isinstance(v, pg.List):
      return 0.0
    if mt == pg.hyper.MutationType.DELETE:
      return 0.0
    return 1.0

  return pg.Dict(net=pg.evolve(fx.Net(layers=[fx.Layer(units=16, act='relu'), fx.Layer(units=32, act='tanh')]),
                               node_transform, weights=weights),
                 lr=pg.oneof([0.1, 0.01]))


def evolvable_item(rec, tier):
  """Evolvable placeholder: every chain first_dna -> random_dna(previous_dna=...) x2 over all choice sequences."""
  from mc import choice
  tr = dict(kind='evolvable')
  cap = 600 if tier == 'thorough' else 80

  def once(ch):
    value = _evolve_value()
    t = pg.template(value)
    spec = t.dna_spec()
    before = snapshot(value)
    pop = [pg.random_dna(spec, ch)]
    errs = []
    held = []
    for step in (0, 1):
      before_v = t.decode(pop[step])                 # a value the caller holds while the next DNA is derived from the same parent
      before_j = repr(pg.to_json(before_v))
      pop.append(pg.random_dna(spec, ch, previous_dna=pop[step]))
      held.append((before_v, before_j))
      again = repr(pg.to_json(t.decode(pop[step])))
      fresh_j = repr(pg.to_json(pg.template(_evolve_value()).decode(pg.from_json(pop[step].to_json()))))
      if repr(pg.to_json(before_v)) != before_j:
        errs.append(('derivation-changed-a-decoded-value', f'deriving a DNA from member {step} changed the value decoded from it earlier'))
      if again != fresh_j or again != before_j:
        errs.append(('decode-changed-by-derivation', f'member {step} decodes to {again} after a DNA was derived from it; '
                     f'before: {before_j}; on a fresh template: {fresh_j}'))
    decoded_first = [repr(pg.to_json(t.decode(d))) for d in pop]
    for i, d in enumerate(pop):
      fresh = pg.template(_evolve_value()).decode(pg.from_json(d.to_json()))
      v1 = t.decode(d)
      v2 = t.decode(d)
      if has_hyper(v1):
        errs.append(('placeholder-left', f'member {i}'))
      if not pg.eq(v1, v2) or repr(pg.to_json(v1)) != decoded_first[i]:
        errs.append(('decode-not-repeatable', f'member {i} decodes differently the second time'))
      if not pg.eq(v1, fresh):
        errs.append(('decode-differs-from-fresh-template', f'member {i}: {pg.to_json(v1)!r} vs fresh {pg.to_json(fresh)!r}'))
      try:
        if t.encode(v1) != d:
          errs.append(('encode-not-inverse', f'member {i}'))
      except Exception as e:  # pylint: disable=broad-except
        errs.append((f'encode-raises:{type(e).__name__}', str(e)))
      if isinstance(v1, pg.Dict):
        v1.net.layers.append(fx.Layer(units=1, act='x'))      # a write to the decoded value must stay local
      if repr(pg.to_json(t.decode(d))) != decoded_first[i]:
        errs.append(('decoded-value-aliases-template-state', f'member {i}: writing to a decoded value changed later decodes'))
    if snapshot(value) != before:
      errs.append(('template-modified', 'the hyper value changed'))
    return errs

  n = 0
  for choices_, res, _ in choice.explore(once, max_execs=cap):
    if res == 'CAP':
      rec.add('choice_caps_hit', 1)
      break
    n += 1
    rec.evals += 1
    for clause, text in res:
      rec.viol(f'{clause}/evolvable', f'choices {choices_}: {text}', dict(tr, choices=choices_))
  rec.trans += n
  rec.nt(('evolvable', n))


GENOMES = ['', '1', '1,2', '2,1']


class IntSeq(pg.hyper.CustomHyper):
  """User-defined placeholder: a comma-separated genome denotes a list of ints."""

  def custom_decode(self, dna):
    return [int(x) for x in dna.value.split(',') if x != '']

  def custom_encode(self, value):
    if not isinstance(value, list) or not all(isinstance(x, int) for x in value):
      raise ValueError('not a list of ints')
    return pg.DNA(','.join(str(x) for x in value))

  def next_dna(self, dna=None):
    if dna is None:
      return pg.DNA(GENOMES[0])
    i = GENOMES.index(dna.value)
    return pg.DNA(GENOMES[i + 1]) if i + 1 < len(GENOMES) else None

  def random_dna(self, random_generator=None, previous_dna=None):
    import random
    return pg.DNA((random_generator or random).choice(GENOMES))


def _parse(g):
  return [int(x) for x in g.split(',') if x != '']


def _custom_templates():
  """name -> (builder, [(dna literal, reference value)])"""
  G = GENOMES
  out = {}
  out['alone'] = (lambda: pg.Dict(a=IntSeq()), [(g, dict(a=_parse(g))) for g in G])
  out['two-independent'] = (lambda: pg.Dict(a=IntSeq(), b=IntSeq()),
                            [([g, h], dict(a=_parse(g), b=_parse(h))) for g in G for h in G])
  out['in-list'] = (lambda: pg.List([IntSeq(), pg.oneof([5, 6])]), [([g, j], [_parse(g), 5 + j]) for g in G for j in range(2)])
  out['conditional'] = (lambda: pg.Dict(a=pg.oneof([IntSeq(), None]), b=pg.oneof([1, 2]), c=IntSeq()),
                        [([(0, g), j, h], dict(a=_parse(g), b=1 + j, c=_parse(h))) for g in G for j in range(2) for h in G]
                        + [([1, j, h], dict(a=None, b=1 + j, c=_parse(h))) for j in range(2) for h in G])
  cands = [None, 7, 8]
  many = []
  for i, j in itertools.permutations(range(3), 2):
    per_i = [((0, g), _parse(g)) for g in G] if i == 0 else [(i, cands[i])]
    per_j = [((0, g), _parse(g)) for g in G] if j == 0 else [(j, cands[j])]
    many += [([li, lj], dict(a=[vi, vj])) for li, vi in per_i for lj, vj in per_j]
  out['manyof-candidate'] = (lambda: pg.Dict(a=pg.manyof(2, [IntSeq(), 7, 8])), many)
  out['in-object'] = (lambda: fx.Node(x=IntSeq(), items=[pg.oneof([IntSeq(), 3])], d={}),
                      [([g, (0, h)], ('Node', _parse(g), [_parse(h)])) for g in G for h in G]
                      + [([g, 1], ('Node', _parse(g), [3])) for g in G])
  return out


def custom_item(rec, name):
  """User-defined placeholders alone, side by side, conditional, as manyof candidates and inside objects."""
  build, table = _custom_templates()[name]
  tr = dict(kind='custom', template=name)
  value = build()
  before = snapshot(value)
  t = pg.template(value)
  spec = t.dna_spec()
  want_lits = sorted(repr(l) for l, _ in table)
  try:
    got_lits = sorted(repr(d.to_json(type_info=False)) for d in spec.iter_dna())
    if got_lits != want_lits:
      rec.viol(f'iter-dna/custom-{name}', f'iter_dna yields {len(got_lits)} DNAs, the template admits {len(want_lits)}: '
               f'{sorted(set(got_lits) ^ set(want_lits))[:4]}', tr)
  except Exception as e:  # pylint: disable=broad-except
    rec.viol(f'iter-dna-raises:{type(e).__name__}/custom-{name}', str(e), tr)
  for lit, want in table:
    rec.evals += 1
    rec.trans += 1
    trd = dict(tr, dna=lit)
    try:
      v = t.decode(pg.DNA(D.ctor(lit)))
    except Exception as e:  # pylint: disable=broad-except
      rec.viol(f'decode-raises:{type(e).__name__}/custom-{name}', f'decode({lit!r}): {e}', trd)
      continue
    if has_hyper(v) or not pg.is_deterministic(v):
      rec.viol(f'placeholder-left/custom-{name}', f'decode({lit!r}) = {v!r}', trd)
    if plain(v) != want:
      rec.viol(f'decode-differs-from-reference/custom-{name}', f'decode({lit!r}) = {plain(v)!r}, the template denotes {want!r}', trd)
    if plain(t.decode(pg.DNA(D.ctor(lit)))) != plain(v):
      rec.viol(f'decode-not-repeatable/custom-{name}', f'{lit!r}', trd)
    try:
      back = t.encode(v)
      if back != pg.DNA(D.ctor(lit)):
        rec.viol(f'encode-not-inverse/custom-{name}', f'encode(decode({lit!r})) = {back!r}', trd)
    except Exception as e:  # pylint: disable=broad-except
      rec.viol(f'encode-raises:{type(e).__name__}/custom-{name}', f'encode(decode({lit!r})): {e}', trd)
    try:
      if plain(pg.materialize(value, pg.DNA(D.ctor(lit)))) != want:
        rec.viol(f'materialize-differs/custom-{name}', f'{lit!r}', trd)
    except Exception as e:  # pylint: disable=broad-except
      rec.viol(f'materialize-raises:{type(e).__name__}/custom-{name}', f'{lit!r}: {e}', trd)
    if snapshot(value) != before:
      rec.viol(f'template-modified/custom-{name}', f'decode/encode of {lit!r} changed the hyper value', trd)
      before = snapshot(value)
  try:
    allv = [repr(plain(x)) for x in pg.iter(value)]
    if sorted(allv) != sorted(repr(w) for _, w in table):
      rec.viol(f'iter-values/custom-{name}', f'pg.iter yields {len(allv)} values ({len(set(allv))} distinct), expected {len(table)}', tr)
  except Exception as e:  # pylint: disable=broad-except
    rec.viol(f'iter-raises:{type(e).__name__}/custom-{name}', str(e), tr)
  if snapshot(value) != before:
    rec.viol(f'template-modified-by-iter/custom-{name}', 'pg.iter changed the hyper value', tr)
  rec.nt(('custom', name))


def run(ctx):
  ctx.rule = ('every template built from the DNASpec grammar (oneof / manyof in every distinct x sorted mode, conditional '
              'candidates with nested placeholders, floats) hosted in a dict, a list and an object x every valid DNA: no '
              'placeholder left, equality with an independent reference decode, encode(decode(dna)) = dna (candidates are '
              'pairwise distinguishable by construction), repeatable decode, materialize agrees, template snapshot unchanged '
              '(also after writing to the decoded value), pg.iter yields space_size pairwise different values; typed fields and '
              '`where` filters; user-defined (custom) placeholders in 6 shapes x all their DNAs; evolvable placeholders; distinct_nontrivial = (template, host) passing all clauses')
  g = D.grammar(60 if ctx.thorough else 24, 'thorough' if ctx.thorough else 'quick')
  if not ctx.thorough:
    g = g[::2]
  F = ('float', 0.0, 1.0)
  g += [('space', (F,)), ('space', (('one', (C, ('space', (F, ('one', (C, C)))))), F)),
        ('space', (('many', 2, (C, ('space', (F,))), False, False),))]
  items = [(d, h, ctx.tier) for d in g for h in HOSTS]
  ctx.pmap(spec_item, items, chunk=2)
  ctx.pmap(typed_item, [0], chunk=1)
  ctx.pmap(where_item, list(HOSTS), chunk=1)
  ctx.pmap(custom_item, list(_custom_templates()), chunk=1)
  ctx.pmap(evolvable_item, [ctx.tier], chunk=1)
  if ctx.extra.get('choice_caps_hit'):
    ctx.cap('evolvable: choice-sequence cap hit; all sequences below the cap were executed')
  ctx.states += len(items)
  ctx.note('templates', len(items))
  ctx.sample(dict(spec=g[3], host='obj'))
  ctx.assumptions += ['evolvable placeholders: one template, all chains of two mutations over all choice sequences up to the cap',
                      'custom placeholders: one user-defined class (string genome -> int list) with 4 genomes in 6 template shapes',
                      'floats take bounds and one interior representative']


def replay(rec, data):
  from mc import statespace
  k = data.get('kind')
  if k == 'template':
    spec_item(rec, (statespace._tup(data['spec']), data['host'], 'thorough'))
  elif k == 'typed':
    typed_item(rec, 0)
  elif k == 'evolvable':
    evolvable_item(rec, 'thorough')
  elif k == 'custom':
    custom_item(rec, data['template'])
  else:
    where_item(rec, data['host'])
