"""C16: concurrent sampling hands out each trial once and loses no feedback (E4 schedule exploration)."""
from __future__ import annotations

import itertools

import pyglove as pg

from mc import sched

FILES = ('core/tuning/local_backend.py', 'core/tuning/sample.py', 'core/geno/dna_generator.py', 'ext/evolution/base.py')
FILES_THOROUGH = FILES + ('core/tuning/protocols.py', 'core/geno/sweeping.py', 'core/geno/random.py', 'core/geno/deduping.py',
                          'core/tuning/backend.py')
MODULES = ('pyglove.core.tuning.local_backend', 'pyglove.ext.evolution.base')
sched.install_proxy(MODULES)

_N = [0]


class LogSweeping(pg.geno.Sweeping):
  """Sweeping that records the feedback it receives."""

  def _setup(self):
    super()._setup()
    self.log = []

  def _feedback(self, dna, reward):
    self.log.append((tuple(dna.to_numbers()), reward))


class LogEvolution(pg.evolution.Evolution):
  """Evolution that records the feedback it receives."""

  def _setup(self):
    super()._setup()
    self.log = []

  def _feedback(self, dna, reward):
    self.log.append((tuple(dna.to_numbers()), reward))
    super()._feedback(dna, reward)
    self.seq = getattr(self, 'seq', [])
    self.seq.append(pg.evolution.base.get_feedback_sequence_number(dna))


def space():
  c = pg.geno.constant
  return pg.geno.space([pg.geno.oneof([c(), c(), c(), c(), c(), c()], location=pg.KeyPath('x'))])


def make_algo(kind):
  if kind == 'sweeping':
    return LogSweeping()
  M = pg.evolution.mutators
  S = pg.evolution.selectors
  return LogEvolution(S.Random(2, seed=1) >> S.Top(1) >> M.Uniform(seed=1),
                      population_init=(pg.geno.Random(seed=1), 2), population_update=S.Last(4))


def reward_of(dna):
  return float(dna.to_numbers()[0]) + 1.0


class StopOdd(pg.tuning.EarlyStoppingPolicy):
  """Stops trials whose first measurement is odd (a pure function of the trial)."""

  def should_stop_early(self, trial):
    return bool(trial.measurements) and int(trial.measurements[0].reward) % 2 == 1


def make_harness(spec_name):
  """Returns (bodies, observe) for a fresh execution."""
  _N[0] += 1
  import os
  study = f'c16_{os.getpid()}_{_N[0]}'
  cfg = HARNESSES[spec_name]
  algo = make_algo(cfg['algo'])
  # a hyper value makes every pg.sample call build its own (equal) DNASpec, as user code does
  sp = (lambda: pg.Dict(x=pg.oneof([0, 1, 2, 3, 4, 5]))) if cfg.get('hyper_space') else space()
  n = cfg['n']
  seen = [[] for _ in cfg['workers']]
  events = []
  by_group = {}
  order_bad = []
  policy = StopOdd() if cfg.get('early_stop') else None

  def worker(i, group, plan):
    def body():
      step = 0
      for example, feedback in pg.sample(sp() if callable(sp) else sp, algo, num_examples=n, name=study, group=group, early_stopping_policy=policy):
        seen[i].append(feedback.id)
        mine = by_group.setdefault(group, [])
        for y, ty in mine:
          if y < feedback.id and ty.status != 'COMPLETED':
            order_bad.append(f'worker {i} of group {group!r} was given trial {feedback.id} while trial {y} of the same group is {ty.status}')
        mine.append((feedback.id, feedback.get_trial()))
        action = plan[step % len(plan)]
        step += 1
        with feedback.ignore_race_condition():
          if action == 'done':
            feedback(reward_of(feedback.dna))
          elif action == 'measure+done':
            feedback.add_measurement(reward_of(feedback.dna), step=1)
            if feedback.should_stop_early():
              feedback.skip()
            else:
              feedback.done()
          elif action == 'skip':
            feedback.skip()
          elif action == 'end_loop':
            feedback(reward_of(feedback.dna))
            feedback.end_loop()
        events.append((i, feedback.id, action))
        if action == 'hold':      # this worker leaves with its trial still pending (its group mates finish it)
          break
    return body

  bodies = [worker(i, g, plan) for i, (g, plan) in enumerate(cfg['workers'])]

  def observe():
    out = dict(seen=[list(s) for s in seen], order_bad=list(order_bad))
    try:
      result = pg.poll_result(study)
    except Exception as e:  # pylint: disable=broad-except
      out['poll_error'] = f'{type(e).__name__}: {e}'
      return out, algo, None
    return out, algo, result

  return bodies, observe, cfg


HARNESSES = {
    'H1-two-groups-sweeping': dict(algo='sweeping', n=3, workers=[('g0', ['done']), ('g1', ['done'])], same_group=False),
    'H2-same-group': dict(algo='sweeping', n=3, workers=[('g', ['done']), ('g', ['measure+done'])], same_group=True),
    'H2b-same-group-skip': dict(algo='sweeping', n=3, workers=[('g', ['skip', 'done']), ('g', ['done'])], same_group=True),
    'H3-two-groups-evolution': dict(algo='evolution', n=3, workers=[('g0', ['done']), ('g1', ['done'])], same_group=False),
    'H5-end-loop': dict(algo='sweeping', n=4, workers=[('g0', ['done', 'end_loop']), ('g1', ['done'])], same_group=False, may_end=True),
    'H6-early-stop': dict(algo='evolution', n=3, workers=[('g0', ['measure+done']), ('g1', ['measure+done'])], same_group=False,
                          early_stop=True),
    'H9-hyper-value-early-stop': dict(algo='sweeping', n=3, workers=[('g0', ['measure+done']), ('g1', ['measure+done'])], same_group=False,
                                      early_stop=True, hyper_space=True),
    'H7-same-group-evolution': dict(algo='evolution', n=3, workers=[('g', ['done']), ('g', ['done'])], same_group=True),
    'H8-same-group-one-leaves': dict(algo='sweeping', n=3, workers=[('g', ['done']), ('g', ['hold'])], same_group=True),
    'H4-three-workers': dict(algo='sweeping', n=4, workers=[('g0', ['done']), ('g1', ['skip', 'done']), ('g1', ['done'])],
                             same_group=False),
}


def check(s, observe, cfg, rec, tr, hname):
  """The oracle at quiescence."""
  out, algo, result = observe()
  n = cfg['n']
  bad = []
  for i, e in enumerate(s.errors):
    if e is not None:
      bad.append((f'worker-died:{e[0]}', f'worker {i}: {e[0]}: {e[1]}'))
  if s.deadlock:
    bad.append(('deadlock', f'no thread enabled; blocked={s.blocked} finished={s.finished}'))
  for t in out.get('order_bad', [])[:1]:
    bad.append(('group-given-new-trial-before-pending-finished', t))
  if result is None:
    bad.append(('no-shared-result', out.get('poll_error', '')))
  else:
    trials = list(result.trials)
    ids = [t.id for t in trials]
    may_end = cfg.get('may_end')
    if (not may_end and len(trials) != n) or len(trials) > n:
      bad.append(('trial-count', f'{len(trials)} trials were created, {n} requested (ids {ids})'))
    if ids != list(range(1, len(ids) + 1)):
      bad.append(('trial-ids', f'trial ids are {ids}'))
    allseen = [x for sl in out['seen'] for x in sl]
    if not may_end and sorted(set(allseen)) != sorted(set(ids)):
      bad.append(('trial-not-delivered-from-shared-study', f'workers saw trials {out["seen"]}, the study holds {ids} '
                  f'(workers did not share one study)'))
    if not cfg['same_group'] and len(cfg['workers']) == 2 and set(out['seen'][0]) & set(out['seen'][1]):
      bad.append(('trial-delivered-to-two-groups', f'workers of different groups saw {out["seen"]}'))
    if any(t.status != 'COMPLETED' for t in trials) and not may_end:
      bad.append(('trial-not-completed', f'statuses {[t.status for t in trials]}'))
    done = [t for t in trials if t.status == 'COMPLETED' and not t.infeasible]
    fed = sorted(k for k, _ in getattr(algo, 'log', []))
    want = sorted(tuple(t.dna.to_numbers()) for t in done)
    if fed != want:
      bad.append(('feedback-not-exactly-once', f'completed feasible trials {want}, algorithm received feedback for {fed}'))
    seq = sorted(x for x in getattr(algo, 'seq', []) if x is not None)
    if getattr(algo, 'seq', None) and seq != list(range(1, len(seq) + 1)):
      bad.append(('feedback-sequence-numbers', f'the reports were numbered {getattr(algo, "seq")} (each report has its own number 1..{len(seq)})'))
    if algo.num_feedbacks != len(done):
      bad.append(('num_feedbacks', f'num_feedbacks={algo.num_feedbacks}, completed feasible trials={len(done)}'))
    if algo.num_proposals != len(trials):
      bad.append(('num_proposals', f'num_proposals={algo.num_proposals}, trials={len(trials)}'))
    summary = str(result)
    n_completed = sum(1 for t in trials if t.status == 'COMPLETED')
    n_infeasible = sum(1 for t in trials if t.infeasible)
    if n_completed and f'{n_completed}/{len(trials)}' not in summary:
      bad.append(('summary-counts', f'{n_completed} of {len(trials)} trials completed but the summary says {summary!r}'))
    if n_infeasible and f"infeasible': '{n_infeasible}/{len(trials)}" not in summary and f'infeasible={n_infeasible}/{len(trials)}' not in summary \
        and f'{n_infeasible}/{len(trials)}' not in summary:
      bad.append(('summary-infeasible', summary))
    best = result.best_trial
    if done:
      top = max(t.final_measurement.reward for t in done)
      if best is None or best.infeasible or best.final_measurement.reward != top:
        bad.append(('best-trial', f'best trial is {None if best is None else (best.id, best.final_measurement.reward, best.infeasible)}, '
                    f'maximal feasible reward is {top}'))
    elif best is not None and best.infeasible:
      bad.append(('best-trial-infeasible', f'{best.id}'))
  for clause, text in bad:
    rec.viol(f'{clause}/{hname}', f'schedule {compact(s.choices())}: {text}', tr)
  return not bad


def compact(choices):
  """Deviations only: (point index, choice)."""
  return [(i, c) for i, c in enumerate(choices) if c]


def run_one(rec, item):
  hname, prefix, bound, files = item
  bodies, observe, cfg = make_harness(hname)
  s = sched.Scheduler(bodies, prefix, files)
  s.run()
  rec.evals += 1
  rec.trans += len(s.points)
  tr = dict(kind='schedule', harness=hname, prefix=[c for c in s.choices()][:len(prefix)], files=list(files))
  if s.divergence:
    rec.stat('divergence')
    raise RuntimeError(f'schedule replay diverged ({s.divergence}) for {hname} prefix {compact(prefix)}')
  ok = check(s, observe, cfg, rec, tr, hname)
  out, algo, result = observe()
  outcome = (tuple(tuple(x) for x in out['seen']), None if result is None else tuple(t.status for t in result.trials))
  rec.nt((hname, outcome))
  rec.add('scheduling_points_max', 0)
  return dict(succ=sched.successors(s, len(prefix), bound), npoints=len(s.points), ok=ok)


def explore(ctx, hname, bound, files, cap):
  level = [[]]
  total = 0
  npoints = 0
  # trust check: the default schedule twice, identical observations
  for depth in range(bound + 1):
    items = [(hname, p, bound, files) for p in level]
    res = ctx.pmap(run_one, items, chunk=4)
    total += len(items)
    nxt = []
    for _, r in res:
      if r is None:
        continue
      npoints = max(npoints, r['npoints'])
      if r['ok']:
        nxt += r['succ']
    if depth == bound:
      break
    if total + len(nxt) > cap:
      ctx.cap(f'{hname}: execution cap {cap} reached at {depth + 1} deviations ({len(nxt)} schedules not run)')
      nxt = nxt[:max(0, cap - total)]
    level = nxt
    if not level:
      break
  return total, npoints


def run(ctx):
  ctx.rule = ('real worker threads under a controlled scheduler (baton + sys.settrace line events in the sampling, backend, '
              'generator and evolution modules; cooperative locks): for each harness every schedule with at most b preemptions '
              'is executed (stateless DFS by deviation count) and the quiescent state is checked: trial count and ids, every trial '
              'delivered within one shared study and to one group, every completed feasible trial fed back exactly once, '
              'proposal/feedback counters, all trials completed, summary counts, best trial maximal and feasible, no worker '
              'exception, no deadlock; distinct_nontrivial = distinct (delivery pattern, statuses) outcomes over all schedules')
  files = FILES_THOROUGH if ctx.thorough else FILES
  plan = []
  for h in HARNESSES:
    if ctx.thorough:
      plan.append((h, 2 if h in ('H1-two-groups-sweeping', 'H2-same-group') else 1, 60000))
    else:
      plan.append((h, 1, 4000))
  summary = {}
  for h, b, cap in plan:
    n, pts = explore(ctx, h, b, files, cap)
    summary[h] = dict(preemption_bound=b, schedules=n, scheduling_points=pts)
  ctx.states += sum(v['schedules'] for v in summary.values())
  ctx.note('harnesses', summary)
  ctx.sample(dict(harness='H1-two-groups-sweeping', schedule=[[17, 1]], meaning='at scheduling point 17 the other worker runs'))
  ctx.assumptions += ['statement granularity (line events); within-statement races are out of scope (as the property states)',
                      '2-3 worker threads; 4-8 workers are not explored',
                      'same-group workers wrap their feedback in feedback.ignore_race_condition() as documented']


def replay(rec, data):
  run_one(rec, (data['harness'], data['prefix'], 0, tuple(data.get('files', FILES))))
