"""Generates /verif/MANIFEST.json from the table below: python3 -m mc.manifest_gen."""
import json
import os

VERIF = os.path.dirname(os.path.dirname(os.path.abspath(__file__)))

BASE_NOTE = ('Trusted base: CPython 3.12, the harness code under /verif/mc, the reference models / acceptors '
             'written there, PYTHONHASHSEED=0. Bounds are stated in evidence.coverage; nothing is claimed above them.')

# id -> (engine, category, technique, text, note)
CHECKS = {
    'C01': ('E1-statespace', 'model_checking',
            'explicit-state BFS over histories of mutating/copying operations on real symbolic forests; topology invariant on every state',
            'Every enabled operation (all list/dict/object mutators incl. in-place operators, rebind forms, slices, '
            'notification modes, copy operations) at every node with every value class (fresh, existing node, node of '
            'another tree, detached node, MISSING) is executed up to the stated history depth; after every transition '
            'the parent/path/lookup/root/alias/detached invariant is evaluated on all nodes of all roots; what an operation removed '
            'is checked as a tree of its own; a value handed to an operation is either stored as that node or left unparented; '
            'sorts that fail half-way.',
            BASE_NOTE),
    'C03': ('E1-statespace', 'model_checking',
            'explicit-state BFS over write histories on typed containers built for every spec of the grammar; schema invariant (independent acceptor + own-spec fixpoint) on every state',
            'For every spec of the value-spec grammar a typed pg.Dict, pg.List (three size bounds) and pg.Object is '
            'driven through every write path with a boundary-complete value pool under the allow_partial scopes; after '
            'every step, successful or failed, the stored content is checked by an independent acceptor and by the '
            'container\'s own spec, rejected writes must raise Type/Value/KeyError and leave the target unchanged, and a '
            'history must replay identically (no state leak through shared schemas); nested containers written through ancestor '
            'key paths; typed children handed from one tree to another (giver unchanged, receiver validates by its own rules).',
            BASE_NOTE),
    'C04': ('E2-enum', 'model_checking',
            'bounded-exhaustive enumeration of the value-spec grammar (depth 2), all ordered pairs, laws decided by the real apply() over a boundary-complete value pool',
            'L1 idempotent apply / spec unchanged and L2 default fixpoint for every spec x pool value; L3 (is_compatible => '
            'acceptance containment) and L4 (successful extend => extension accepts no more than the base on shared '
            'fields, base compatible with it, the extension accepts its own default) for every ordered pair of the ~430 specs '
            '(grammar + 11 targeted specs); values are compared in the form the accepting spec stores; containment is decided exactly '
            'inside the grammar because the pool holds a representative of every cell of every atomic predicate.',
            BASE_NOTE),
    'C05': ('E1-statespace', 'model_checking',
            'bounded-exhaustive enumeration of the value grammar through every serialization route + explicit-state BFS over save/load/append histories on both file systems against a dict/list model',
            'Every value of the grammar (special floats, big ints, hostile strings, tuples, str/int keys incl. negative, '
            'symbolic containers, objects, classes, functions, every value spec of the C04 grammar, schemas, DNASpecs, DNAs '
            'with metadata, hyper primitives) through to_json, the string form, pickle, deepcopy and clone: equal, same type, '
            'hash and encoding fixpoint, well-formed tree; every history of save / overwrite / append / rewrite / load up to '
            'depth 3 (4 thorough) over colliding paths (incl. a bare file name, writers / appenders that add nothing) on the '
            'in-memory and the standard file system, every path read back after every step; lambdas sharing one code object, '
            'C functions of several modules.',
            BASE_NOTE),
    'C06': ('E2-enum', 'model_checking',
            'bounded-exhaustive enumeration of a value universe; every law evaluated on all ordered pairs and triples',
            'eq reflexive/symmetric/transitive, ne = not eq, eq => equal hash, operator agreement for opted-in classes, lt '
            'never raises, trichotomy, gt = swapped lt, lt transitive, sorting never raises: on every pair and triple of a '
            'universe of 161 (quick) / ~387 (thorough, incl. systematically generated lists, tuples, dicts in every key '
            'order, objects) values, among them free-form keys in different orders, values mutated after being hashed '
            '(notifying and non-notifying writes), same-named classes and references.',
            BASE_NOTE),
    'C07': ('E1-statespace', 'model_checking',
            'enumeration of (value, clone method) pairs + explicit-state BFS over mutation histories on either copy with a non-interference invariant',
            'Fidelity (equality, type, per-node flags and value specs, topology, identity disjointness, leaf/Ref sharing '
            'rule, original untouched) for every value of the list under clone(deep/shallow), copy.copy, copy.deepcopy; '
            'independence: every mutation history up to the stated depth applied to either copy, the full snapshot of the '
            'other copy compared after every transition; leaf sharing is followed through tuples and plain containers; '
            'per-instance accessor flags.',
            BASE_NOTE),
    'C08': ('E2-enum', 'model_checking',
            'exhaustive enumeration of tree x protected node x flag/scope configuration x complete mutator menu, reference permission function + unprotected twin run',
            'Every mutator of the menu at the protected node and every descendant (and deep rebinds from the root) under '
            'every combination of object flag and nested as_sealed / allow_writable_accessors scopes (True/False/None, '
            'two deep; three deep in thorough): denied => WritePermissionError and identical snapshot; allowed => no '
            'WritePermissionError; seal()/seal(False) recurse; no operation changes the protection flags of a surviving node.',
            BASE_NOTE),
    'C09': ('E1-statespace', 'model_checking',
            'explicit-state BFS over mutation histories on trees of logging receivers; per-call notification oracle + freshness against a fresh deep copy',
            'Every menu operation at every node (and batched deep rebinds with 1-3 paths) with notifications on / off / '
            'skipped on trees mixing objects overriding _on_change (with / without super), dicts/lists with callbacks and '
            'plain containers: exactly one event per affected subscriber, none for others, children before parents, '
            'payload checked against pre/post snapshots, one _on_bound per event; a node the call removed no longer notifies the '
            'tree when it is changed afterwards; handler lookup over a class hierarchy in all 24 first-use orders; after every '
            'ordinary step (also a failed batch) the derived facts of every node equal those of a fresh deep copy.',
            BASE_NOTE),
    'C10': ('E2-enum', 'model_checking',
            'exhaustive enumeration of parser inputs / key sequences / nested values, plus explicit-state BFS to closure of KeyPathSet against a Python set',
            'All strings over a 6-symbol alphabet up to length 6 (7 thorough) through the parser; all key sequences up to '
            'length 3 over 17 hostile keys: print/parse round trip with key types, arithmetic and a total order on all '
            'pairs/triples; all nested values of the grammar: traversal, lookup by path and by printed path, query, rebind '
            'by function, flatten/canonicalize (lossless mode); KeyPathSet: every operation in every reachable state of '
            'two sets over a 6-path universe against Python sets (plus a small universe around the key \'$\'); nested values '
            'include integer and \'$\' dict keys.',
            BASE_NOTE),
    'C11': ('E2-enum', 'model_checking',
            'bounded-exhaustive enumeration of the DNASpec grammar; next_dna walked as a transition system against an independent generator of the valid set; all random_dna choice sequences',
            'For every spec of the grammar (every distinct x sorted mode, 1-3 choices, 1-4 candidates, conditional '
            'sub-spaces two deep, 1-2 elements, <= 40 / 200 DNAs) the next_dna chain is compared with an independent '
            'reference of the constraint-satisfying DNAs (count, space_size, order, no successor); validate / DNA(spec=) / '
            'use_spec accept every member and reject every one-step corruption; random_dna is executed for every choice '
            'sequence; Sweeping proposes the same sequence and stays exhausted when asked again.',
            BASE_NOTE),
    'C12': ('E2-enum', 'model_checking',
            'bounded-exhaustive enumeration of specs x valid DNAs x view parameters, and of producer chains (incl. all random_dna choice sequences), each compared with a DNA rebuilt from raw numbers',
            'Every view (flat / nested numbers, to_dict under all 90 parameter combinations, compact / verbose / string '
            'JSON) of every valid DNA of every grammar spec (with and without names and literal values) is inverted with '
            'the spec; lookups by decision point, id and name; every DNA produced by iteration, next_dna, random_dna, '
            'parse, from_numbers, from_dict, from_json, clone and chains of two of them is aligned node by node with its '
            'specification; producers leave their input untouched; lookups (whole multi-choices too) are repeatable after the '
            'name table was built; conditional chains three deep.',
            BASE_NOTE),
    'C13': ('E2-enum', 'model_checking',
            'bounded-exhaustive enumeration of templates (grammar x host container) x valid DNAs against an independent reference decode; evolvable chains over all choice sequences',
            'Every template built from the DNASpec grammar inside a dict, a list and an object, every valid DNA: no '
            'placeholder left, equals the reference decode, encode inverts decode, repeatable, materialize agrees, template '
            'snapshot unchanged even after writes to the decoded value, pg.iter yields space_size distinct values; typed '
            'fields, where-filters, user-defined (custom) placeholders in 6 template shapes, and all two-step mutation chains of '
            'an evolvable placeholder (the parent is decoded again after each derivation); key-reordered inputs to encode; manyof '
            'against list size bounds.',
            BASE_NOTE),
    'C14': ('E3-choice', 'model_checking',
            'stateless DFS over choice sequences of the random source for every operator x specification x parents; enumeration of operator expressions',
            'Every shipped mutator / recombinator parameterisation x 9 specifications x parents x every choice sequence '
            '(cap reported): children validate, satisfy an independent constraint checker and are aligned node by node; '
            'inputs and input list untouched; selectors return members in the documented number; seeded operators are '
            'independent of the global random state (6 states x 3 applications, including last-resort merge paths); composed '
            'expressions inherit the checks; each input stays the root of its own tree; spaces rooted at one choice; identical '
            'parents at float bounds; an operator raising on valid parents is a violation.',
            BASE_NOTE),
    'C15': ('E5-crash', 'fault_enumeration',
            'crash-point enumeration: every prefix k of a run x feedback lag / order x persistence moment, recover on a fresh instance, lock-step continuation',
            'For 12 algorithm configurations (Sweeping, seeded Random incl. seed 0, Deduping wrappers, regularized evolution, '
            'hill climb, NSGA2, NEAT, Deduping over evolution) every crash point 0..N with the last 0..2 feedbacks missing '
            '(and out-of-order feedback), history persisted through JSON both as stored at proposal time and as left at the '
            'crash: counts, population with fitness and generations are compared with the uninterrupted run, and both runs '
            'are continued (exact proposals for history-determined algorithms); for those the history also goes through a file '
            'into a fresh interpreter (a real restart) and the continuation is compared.',
            BASE_NOTE),
    'C19': ('E2-enum', 'model_checking',
            'bounded-exhaustive enumeration of generated programs (construct x host position, nested two deep) x permission subsets, differential against plain exec',
            'Every gated construct kind in every syntactic position of every host construct (hosts nested two deep, ~17k '
            'programs) under the covering permission subsets (quick) or all 256 subsets (thorough), passed as argument and '
            'as scope: a missing permission must produce a validation CodeError with an untouched sentinel; a granted '
            'program must yield the intermediates and stdout of plain exec; 343 nestings of three permission scopes never '
            'widen the outer one and an explicit argument is intersected with the scope; every assignment form as last statement; '
            'runtime errors are wrapped with cause and line.',
            BASE_NOTE),
    'C20': ('E2-enum', 'model_checking',
            'bounded-exhaustive enumeration of value shape x hostile string x tree-view option combination; strict tokenizer + differential skeleton against a benign twin',
            'Every (shape, hostile string, option combination) is rendered twice: the value and its twin whose '
            'metacharacters are letters. The strict tokenizer must find a properly nested document, the element/attribute '
            'skeletons must be identical (no datum can introduce an element or attribute), no datum may sit in '
            'script/style/comment, every key and leaf must be present, the value must be untouched; shapes include hostile class '
            'names and pg.Diff values, options include callable key filters; thorough covers every 5th combination of the full '
            'product of 10 options (13824).',
            BASE_NOTE),
    'C16': ('E4-sched', 'model_checking',
            'stateless schedule exploration of real worker threads under a controlled scheduler with iterative preemption bounding',
            'Nine harnesses of 2-3 real threads iterating the same named in-memory sampling loop (different groups, same group '
            'with done / measure / skip, evolution with feedback in different and in the same group, an early-stopping policy, '
            'end_loop, a worker that leaves its trial pending, three workers): every schedule with at most 1 '
            'preemption (2 for the two-worker harnesses in thorough) at statement granularity inside the sampling, backend, '
            'generator and evolution modules is executed to quiescence and checked: trial count and ids, delivery to one '
            'group within one shared study, no new trial for a group while an earlier one is pending, exactly-once feedback, '
            'counters, completion, summary, best trial, no crash, no '
            'deadlock.',
            BASE_NOTE),
    'C17': ('E4-sched', 'model_checking',
            'bounded-exhaustive enumeration of well-nested enter/exit programs against stack models + schedule exploration of two threads (event granularity and statement granularity, preemption bounded)',
            'All tree shapes with up to 3 scopes over each of 18 scoped managers (incl. timing scopes observed through a probe, view options with dict-valued entries, ContextualObject.override with a rebind inside the block, detour of a class with its subclass) (every argument value, every block left '
            'normally, by Exception or by BaseException) and over every pair of managers: the observation of every manager '
            'equals its documented nesting rule at every point and the full observation vector is restored after every exit; '
            'process-wide managers: restoration only. Two threads running such programs under the controlled scheduler: all '
            'schedules with <= 2 preemptions at event granularity and <= 1 preemption at statement granularity inside the '
            'thread-local / flags / contextual / detour / permission / timing / dynamic-evaluation modules; each thread must observe '
            'what it observes alone; two threads applying different decisions to one traced dynamic-evaluation context (also '
            're-entered) under every schedule with <= 1 preemption; a per-thread dynamic-evaluation scope followed by '
            'process-wide ones.',
            BASE_NOTE),
    'C18': ('E2-enum', 'model_checking',
            'bounded-exhaustive enumeration of signatures x call patterns, differential against the interpreter',
            'Every signature with up to 4 (5 thorough) parameters (required / defaulted positionals, *args, keyword-only, '
            '**kwargs, annotated or not) as functor, symbolized function, symbolized class and wrapped class x every split '
            'of positionals and keyword subsets (incl. an unknown name) between construction and call x override flag: the '
            'final outcome equals the interpreter calling the original callable with the effective arguments; generated '
            '__init__ signature, sym_init_args, clone / JSON round trips, nested and self-recursive subclassed functors; all binding '
            'histories (set / unset / del / nested and batched rebinds) up to depth 2 (3 thorough) on 5 partial applications with '
            'four call forms after every step, repeated with type checking off.',
            BASE_NOTE),
    'C02': ('E1-statespace', 'model_checking',
            'explicit-state BFS to closure over the real pg.List/pg.Dict with a lock-step plain list/dict reference model',
            'Every (reachable content, operation) pair over the list/dict API menu with all indices/slices/steps within '
            'the length bound is executed on real objects (fresh, history replayed) and compared with a plain '
            'list/dict: outcome class, return value (setdefault hands back the stored object), and every read path; every '
            'two-path batch rebind on lists of 11-12 elements; every ordered three-path batch over a container, the paths below '
            'it and its replacement.',
            BASE_NOTE),
}

# Properties not (yet) claimed.
NOT_APPLICABLE = {
}

PENDING_REASON = 'check not built yet in this session (planned in DESIGN.md section 2); not claimed until it exists'


def main():
  props = [json.loads(l)['id'] for l in open(os.path.join(VERIF, 'properties.jsonl'))]
  checks = []
  for pid in props:
    if pid not in CHECKS:
      continue
    engine, cat, tech, text, note = CHECKS[pid]
    checks.append(dict(
        property_id=pid,
        quick_cmd=f'./check {pid} --tier quick',
        thorough_cmd=f'./check {pid} --tier thorough',
        evidence_file=f'/verif/evidence/{pid}.json',
        replay_cmd_template=f'./check {pid} --replay {{path}}',
        engine=engine,
        level_claimed=dict(category=cat, text=text, design_ref=f'DESIGN.md section 2, {pid}'),
        level_note=note,
        technique=tech,
    ))
  na = []
  for pid in props:
    if pid in CHECKS:
      continue
    na.append(dict(property_id=pid, reason=NOT_APPLICABLE.get(pid, PENDING_REASON)))
  manifest = dict(
      version=1,
      setup_cmd='./setup.sh',
      hooks=dict(
          guard='PYGLOVE_VERIF',
          enable='no source hooks are needed: checks import pyglove from /repo (editable install) and own '
                 'nondeterminism through public arguments, the random module, sys.settrace and a threading proxy',
          baseline_off_cmd='cd /repo && /venv/bin/python -m pytest -ra -q -p no:cacheprovider --timeout=900 '
                           '--continue-on-collection-errors',
          source_commits=[],
          add_only=True,
      ),
      engines=[
          dict(name='E1-statespace', path='mc/statespace.py',
               serves_properties=['C01', 'C02', 'C03', 'C05', 'C07', 'C08', 'C09', 'C10', 'C17'],
               kind_free_text='explicit-state BFS over the real transition function; state = replayable history; '
                              'canonical hashing; lock-step reference model / invariant on every state'),
          dict(name='E2-enum', path='mc/specs.py',
               serves_properties=['C04', 'C05', 'C06', 'C10', 'C11', 'C12', 'C13', 'C18', 'C19', 'C20'],
               kind_free_text='bounded-exhaustive enumeration of small grammars (mc/specs.py value specs + independent acceptor, '
                              'mc/dnaspecs.py DNASpecs + independent reference generator, generators inside mc/props/*); '
                              'laws on every element/pair/triple'),
          dict(name='E3-choice', path='mc/choice.py', serves_properties=['C11', 'C12', 'C13', 'C14'],
               kind_free_text='stateless DFS over choice sequences: every random.* call is a branching point'),
          dict(name='E4-sched', path='mc/sched.py', serves_properties=['C16', 'C17'],
               kind_free_text='controlled thread scheduler (settrace + baton), iterative preemption bounding'),
          dict(name='E5-crash', path='mc/props/c15.py', serves_properties=['C15'],
               kind_free_text='crash-point x missing-feedback enumeration with recover and lock-step continuation'),
      ],
      checks=checks,
      not_applicable=na,
      notes='One entry point: ./check <ID> --tier quick|thorough [--replay FILE]. Known findings: '
            '/verif/known_findings.json (committed, never written at run time). See DESIGN.md.',
  )
  with open(os.path.join(VERIF, 'MANIFEST.json'), 'w') as f:
    json.dump(manifest, f, indent=1)
    f.write('\n')
  print(f'wrote MANIFEST.json: {len(checks)} checks, {len(na)} not claimed')


if __name__ == '__main__':
  main()
