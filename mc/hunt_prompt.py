"""Prints the sub-agent prompt for hunting violations of a property on the UNMODIFIED code: python3 -m mc.hunt_prompt C04"""
import json, sys
pid = sys.argv[1]
p = [json.loads(l) for l in open('/verif/properties.jsonl') if json.loads(l)['id'] == pid][0]
wt = f'/tmp/wt_{pid}_hunt'
out = f'/tmp/hunt_out/{pid}'
print(f"""You are auditing the open-source Python library google/pyglove against one stated property. The git repository is at /repo (do NOT edit anything in /repo or in /verif, and do not read /verif). If you want to experiment with code changes, create your own scratch worktree (`git -C /repo worktree add --detach {wt} HEAD`) and remove it at the end (`git -C /repo worktree remove --force {wt}`); reading the source under /repo/pyglove and running scripts with `cd /tmp && /venv/bin/python script.py` (pyglove is importable) is enough for most of the work. Do not use git stash. Do not use the network. Do not commit anything.

Property that should always hold ({pid}: {p['title']}):

    {p['statement']}

    Quantified: {p['quantifier']['text']}

Code it is anchored in: {', '.join(p['anchors']['files'])}

Your job: find inputs / operation sequences / configurations for which the UNMODIFIED library violates this property. Read the anchored code looking for shortcuts, early exits, caches, shared mutable defaults, identity-vs-equality confusions, off-by-one cases, unusual-but-legal inputs (empty, negative, nested three deep, keys with special characters, values equal to defaults, same object used twice, subclasses, bool-vs-int, None), multi-step histories and less used public entry points. For every candidate, write a small script that demonstrates it with the public API only, and RUN it. Keep only violations you reproduced; be precise about which sentence of the property is violated, and do not report behaviour the property does not speak about, documented design decisions, or misuse of the API.

Spend your effort on breadth first (try at least 15 distinct ideas), then minimise the 1-6 strongest findings. Save for each finding `{out}/f<N>/demo.py` (exits non-zero or raises AssertionError on the unmodified code, prints what it expected and what it got) and `{out}/f<N>/notes.md` (the clause violated, the mechanism in the source with file:line, how realistic the trigger is, and - if you see one - the smallest repair). Reply with a short summary: one paragraph per finding (trigger, clause, mechanism), then a list of the ideas you tried that held (one line each).""")
