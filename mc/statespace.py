"""E1: explicit-state breadth-first search over real objects.

A state is the history (initial-world descriptor + operation list) that
reaches it.  Live objects are never copied; every transition rebuilds the
world from its descriptor and replays the history on fresh objects.

A `Space` supplies:
  initials()            -> list of JSON-able descriptors
  build(init)           -> fresh world
  ops(world)            -> list of JSON-able operations enabled in this world
  apply(world, op, rec, trace) -> bad: bool   (records violations on rec;
                           trace is a JSON-able dict that replays the step)
  canon(world)          -> hashable canonical form
  check_state(world, rec, trace) -> bad: bool  (optional, full read-path check
                           done once per expanded state)
"""
from __future__ import annotations

import json


class Space:
  reps_per_state = 1
  name = 'space'
  divergence_is_violation = False

  def initials(self):
    raise NotImplementedError

  def build(self, init):
    raise NotImplementedError

  def ops(self, world):
    raise NotImplementedError

  def apply(self, world, op, rec, trace):
    raise NotImplementedError

  def canon(self, world):
    raise NotImplementedError

  def check_state(self, world, rec, trace):
    return False

  def dispose(self, world):
    """Releases external resources of a world (files); called by the engine when it is done with it."""


class _Null:
  """A recorder that ignores everything (used while replaying a prefix)."""

  def viol(self, *a, **k):
    pass

  def stat(self, *a, **k):
    pass

  def nt(self, *a, **k):
    pass

  def sample(self, *a, **k):
    pass

  def add(self, *a, **k):
    pass

  def note(self, *a, **k):
    pass


NULL = _Null()
_SPACE = None


def rebuild(space, init, hist):
  w = space.build(init)
  for op in hist:
    space.apply(w, op, NULL, None)
  return w


def _expand(rec, item):
  """Worker: expands one state = (init, hist, expected canon repr)."""
  space = _SPACE
  init, hist, expect = item
  w = rebuild(space, init, hist)
  got = repr(space.canon(w))
  if expect is not None and got != expect:
    if space.divergence_is_violation:
      # The harness shares only library-level objects (classes / schemas)
      # between executions: a different result for the same history means an
      # earlier execution leaked state into them.
      rec.viol('history-replay-not-reproducible',
               f'replaying {hist!r} from {init!r} gave {got[:300]} instead of {expect[:300]}: state leaked '
               f'between values sharing a class/schema', dict(space=space.name, init=init, hist=list(hist)))
      return []
    # Nondeterminism the harness does not own: hard error, never a violation.
    raise RuntimeError(f'replay divergence: {init!r} {hist!r}: {got} != {expect}')
  trace = dict(space=space.name, init=init, hist=list(hist))
  # A read-path disagreement is recorded but does not stop expansion: the
  # state itself is not corrupt (its content agrees with the model).
  space.check_state(w, rec, trace)
  out = []
  ops = space.ops(w)
  space.dispose(w)
  for op in ops:
    w2 = rebuild(space, init, hist)
    tr = dict(space=space.name, init=init, hist=list(hist), op=op)
    try:
      bad = space.apply(w2, op, rec, tr)
      rec.trans += 1
      rec.evals += 1
      if bad:
        rec.stat('violating-transition(not expanded)')
        continue
      out.append((op, repr(space.canon(w2))))
    finally:
      space.dispose(w2)
  return out


def explore(ctx, space, max_depth, max_states=None):
  """BFS to closure or to max_depth. Returns number of states."""
  global _SPACE
  _SPACE = space
  seen = {}
  frontier = []
  for init in space.initials():
    w = space.build(init)
    c = repr(space.canon(w))
    space.dispose(w)
    if c not in seen:
      seen[c] = 1
      frontier.append((init, (), c))
  depth = 0
  closure = False
  while frontier:
    if depth >= max_depth:
      ctx.cap(f'history depth bound {max_depth} reached with {len(frontier)} '
              f'unexpanded states (all shallower states fully expanded)')
      break
    results = ctx.pmap(_expand, frontier)
    if ctx.stats.get('HARNESS_ERROR'):
      break
    nxt = []
    # deterministic merge order, independent of worker scheduling
    results.sort(key=lambda r: json.dumps([r[0][0], list(r[0][1])], default=str))
    for (init, hist, _), outs in results:
      for op, c in outs or []:
        n = seen.get(c, 0)
        if n == 0 or (n < space.reps_per_state):
          seen[c] = n + 1
          nxt.append((init, tuple(hist) + (op,), c))
    depth += 1
    frontier = nxt
    if max_states and len(seen) > max_states:
      ctx.cap(f'state cap {max_states} hit at depth {depth}')
      break
  else:
    closure = True
  if not frontier:
    closure = True
  ctx.states += len(seen)
  ctx.note('max_depth_reached', depth)
  ctx.note('closure_reached', bool(closure and not ctx.capped))
  return len(seen)


def replay_trace(space, rec, trace):
  """Re-executes one recorded transition sequentially (no explorer)."""
  w = rebuild(space, trace['init'], [_tup(o) for o in trace.get('hist', [])])
  if 'op' in trace:
    return space.apply(w, _tup(trace['op']), rec, trace)
  return space.check_state(w, rec, trace)


def _tup(x):
  """JSON turns tuples into lists; ops are nested tuples."""
  if isinstance(x, list):
    return tuple(_tup(e) for e in x)
  return x
