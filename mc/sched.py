"""E4: controlled thread scheduler with iterative preemption bounding.

Real threads run one at a time (baton = per-thread semaphore).  Every `line`
event in a frame whose file belongs to the configured set is a scheduling
point (statement granularity).  Locks created through the `threading` proxy
installed in pyglove modules are cooperative: a blocked thread is not enabled.

explore(make_harness, bound) enumerates every schedule with at most `bound`
preemptions (stateless: each schedule is a fresh execution replaying a prefix
of choices, then always continuing the running thread).
"""
from __future__ import annotations

import sys
import threading as _threading
import traceback

_CURRENT = None     # the scheduler of the execution in progress (one per process at a time)


class Abort(BaseException):
  """Raised inside harness threads to unwind them (deadlock / divergence)."""


class CoopLock:
  """A lock known to the scheduler."""

  def __init__(self, reentrant=False):
    self.owner = None
    self.count = 0
    self.reentrant = reentrant

  def acquire(self, blocking=True, timeout=-1):
    s = _CURRENT
    tid = s.current() if s is not None else None
    me = tid if tid is not None else ('ext', _threading.get_ident())
    if self.reentrant and self.owner == me:
      self.count += 1
      return True
    if tid is None:
      # outside the controlled threads (set-up / tear-down code): never contended
      self.owner, self.count = me, 1
      return True
    s.point(tid, 'lock.acquire')
    while self.owner is not None:
      if not blocking:
        return False
      s.block(tid, self)
    self.owner, self.count = me, 1
    return True

  def release(self):
    if self.reentrant and self.count > 1:
      self.count -= 1
      return
    self.owner, self.count = None, 0
    s = _CURRENT
    if s is not None:
      s.unblock(self)
      tid = s.current()
      if tid is not None:
        s.point(tid, 'lock.release')

  def locked(self):
    return self.owner is not None

  __enter__ = acquire

  def __exit__(self, *exc):
    self.release()
    return False


class ThreadingProxy:
  """Stands for the `threading` module inside pyglove modules."""

  def __init__(self, real):
    self._real = real

  def Lock(self):  # pylint: disable=invalid-name
    return CoopLock()

  def RLock(self):  # pylint: disable=invalid-name
    return CoopLock(reentrant=True)

  def __getattr__(self, name):
    return getattr(self._real, name)


_INSTALLED = []


def install_proxy(module_names):
  """Replaces the `threading` attribute of the given modules by the proxy (idempotent)."""
  import importlib
  for name in module_names:
    mod = importlib.import_module(name)
    th = getattr(mod, 'threading', None)
    if th is not None and not isinstance(th, ThreadingProxy):
      setattr(mod, 'threading', ThreadingProxy(th))
      _INSTALLED.append(name)
    # module-level lock objects created at import time (whatever their name) become cooperative too
    lock_t, rlock_t = type(_threading.Lock()), type(_threading.RLock())
    for attr, val in list(vars(mod).items()):
      if isinstance(val, lock_t):
        setattr(mod, attr, CoopLock())
      elif isinstance(val, rlock_t):
        setattr(mod, attr, CoopLock(reentrant=True))


class Scheduler:
  """One controlled execution."""

  def __init__(self, bodies, prefix, files, max_points=20000):
    self.bodies = bodies
    self.prefix = list(prefix)
    self.files = tuple(files)
    self.n = len(bodies)
    self.sem = [_threading.Semaphore(0) for _ in bodies]
    self.main = _threading.Semaphore(0)
    self.finished = [False] * self.n
    self.blocked = [None] * self.n
    self.errors = [None] * self.n
    self.idents = {}
    self.running = None
    self.points = []        # (enabled tuple in canonical order, chosen index, running_still_enabled, label)
    self.abort = False
    self.deadlock = False
    self.divergence = None
    self.max_points = max_points
    self.n_trace_events = 0
    self._code_cache = {}

  # -- called from harness threads ---------------------------------------
  def current(self):
    return self.idents.get(_threading.get_ident())

  def _yield(self, tid):
    self.main.release()
    self.sem[tid].acquire()
    if self.abort:
      raise Abort()

  def point(self, tid, label):
    if self.abort:
      raise Abort()
    self._pending_label = label
    self._yield(tid)

  def block(self, tid, lock):
    self.blocked[tid] = lock
    self._pending_label = 'blocked'
    self._yield(tid)

  def unblock(self, lock):
    for i in range(self.n):
      if self.blocked[i] is lock:
        self.blocked[i] = None

  def _tracer(self, tid):
    files = self.files
    cache = self._code_cache

    def local(frame, event, arg):
      if event == 'line':
        self.n_trace_events += 1
        self.point(tid, f'{frame.f_code.co_filename.rsplit("/", 1)[-1]}:{frame.f_code.co_name}')
      return local

    def global_trace(frame, event, arg):
      code = frame.f_code
      hit = cache.get(code)
      if hit is None:
        fn = code.co_filename
        hit = any(fn.endswith(f) for f in files)
        cache[code] = hit
      return local if hit else None

    return global_trace

  def _thread_main(self, tid):
    self.idents[_threading.get_ident()] = tid
    self.sem[tid].acquire()
    try:
      if self.abort:
        raise Abort()
      sys.settrace(self._tracer(tid))
      try:
        self.bodies[tid]()
      finally:
        sys.settrace(None)
    except Abort:
      pass
    except BaseException as e:  # pylint: disable=broad-except
      self.errors[tid] = (type(e).__name__, str(e)[:300], traceback.format_exc()[-1500:])
    finally:
      self.finished[tid] = True
      self.main.release()

  # -- the scheduler loop (main thread) -----------------------------------
  def run(self):
    global _CURRENT
    _CURRENT = self
    threads = [_threading.Thread(target=self._thread_main, args=(i,), daemon=True) for i in range(self.n)]
    for t in threads:
      t.start()
    try:
      while True:
        enabled = [i for i in range(self.n) if not self.finished[i] and self.blocked[i] is None]
        if not enabled:
          if all(self.finished):
            break
          self.deadlock = True
          break
        # canonical order: the running thread first if still enabled, then ascending ids
        still = self.running in enabled
        order = ([self.running] if still else []) + [i for i in enabled if i != self.running]
        pos = len(self.points)
        if pos < len(self.prefix):
          c = self.prefix[pos]
          if c >= len(order):
            self.divergence = f'choice {c} of {len(order)} at point {pos}'
            break
        else:
          c = 0
        self.points.append((tuple(order), c, still, getattr(self, '_pending_label', 'start')))
        if len(self.points) > self.max_points:
          self.divergence = 'horizon exceeded'
          break
        chosen = order[c]
        self.running = chosen
        self.sem[chosen].release()
        self.main.acquire()
    finally:
      # unwind whatever is still alive
      self.abort = True
      for i in range(self.n):
        if not self.finished[i]:
          self.blocked[i] = None
          self.sem[i].release()
      for t in threads:
        t.join(timeout=5)
      _CURRENT = None
    return self

  # -- bookkeeping ---------------------------------------------------------
  def preemptions_before(self, i):
    n = 0
    for order, c, still, _ in self.points[:i]:
      if still and c != 0:
        n += 1
    return n

  def choices(self):
    return [c for _, c, _, _ in self.points]


def successors(s, prefix_len, bound):
  """Prefixes that deviate once more from execution s (after its own prefix), within the preemption bound."""
  out = []
  for i in range(prefix_len, len(s.points)):
    order, c, still, _ = s.points[i]
    if len(order) < 2:
      continue
    cost = s.preemptions_before(i) + (1 if still else 0)
    if cost > bound:
      continue
    base = s.choices()[:i]
    for alt in range(1, len(order)):
      out.append(base + [alt])
  return out
