"""E3: owning randomness.  Every random.* call is a branching point.

`explore(fn)` runs fn(chooser) for every choice sequence (stateless DFS:
replay a prefix, then take the first answer at every later point).  Integer
valued draws are enumerated completely; random()/uniform() are answered from
a finite set of representatives (recorded as not exhaustive over the reals).
"""
from __future__ import annotations

import contextlib
import random as _random_module

FLOAT_REPS = (0.0, 0.3, 0.6, 0.999)


class Divergence(RuntimeError):
  """The replayed prefix does not fit the execution: un-owned nondeterminism."""


class Chooser:
  """Implements the part of the `random` API pyglove uses, from a choice sequence."""

  def __init__(self, prefix=(), float_reps=FLOAT_REPS):
    self.prefix = list(prefix)
    self.trace = []          # (n_options, chosen)
    self.float_reps = float_reps

  def _pick(self, n):
    if n <= 0:
      raise IndexError('cannot choose from an empty sequence')
    pos = len(self.trace)
    if pos < len(self.prefix):
      c = self.prefix[pos]
      if c >= n:
        raise Divergence(f'choice {c} out of {n} at position {pos}')
    else:
      c = 0
    self.trace.append((n, c))
    return c

  # -- random API ----------------------------------------------------------
  def random(self):
    return self.float_reps[self._pick(len(self.float_reps))]

  def uniform(self, a, b):
    return a + (b - a) * self.random()

  def randint(self, a, b):
    return a + self._pick(b - a + 1)

  def randrange(self, start, stop=None, step=1):
    if stop is None:
      start, stop = 0, start
    n = len(range(start, stop, step))
    return start + step * self._pick(n)

  def choice(self, seq):
    seq = list(seq) if not hasattr(seq, '__getitem__') else seq
    return seq[self._pick(len(seq))]

  def sample(self, population, k):
    pool = list(population)
    if k > len(pool):
      raise ValueError('Sample larger than population or is negative')
    out = []
    for _ in range(k):
      out.append(pool.pop(self._pick(len(pool))))
    return out

  def shuffle(self, x):
    items = list(x)
    for i in range(len(x)):
      x[i] = items.pop(self._pick(len(items)))

  def choices(self, population, weights=None, *, cum_weights=None, k=1):
    pop = list(population)
    if weights is not None:
      pop = [p for p, w in zip(pop, weights) if w > 0]
    return [pop[self._pick(len(pop))] for _ in range(k)]

  def getrandbits(self, k):
    return self._pick(2 ** min(k, 3))

  def seed(self, *a, **k):
    pass

  def __getattr__(self, name):
    raise NotImplementedError(f'random.{name} is not owned by the explorer')


def explore(fn, max_execs=100000):
  """Runs fn(chooser) for every choice sequence. Yields (choices, result, trace). Returns via generator."""
  stack = [[]]
  n = 0
  while stack:
    prefix = stack.pop()
    ch = Chooser(prefix)
    res = fn(ch)
    n += 1
    yield [c for _, c in ch.trace], res, ch.trace
    if n >= max_execs:
      yield None, 'CAP', None
      return
    for i in range(len(ch.trace) - 1, len(prefix) - 1, -1):
      nopt, c = ch.trace[i]
      base = [cc for _, cc in ch.trace[:i]]
      for alt in range(nopt - 1, c, -1):
        stack.append(base + [alt])


_NAMES = ('random', 'uniform', 'randint', 'randrange', 'choice', 'sample', 'shuffle', 'choices', 'getrandbits')


@contextlib.contextmanager
def own_module_random(chooser):
  """Routes the module-level random.* functions to the chooser (seed=None operators)."""
  saved = {n: getattr(_random_module, n) for n in _NAMES}
  try:
    for n in _NAMES:
      setattr(_random_module, n, getattr(chooser, n))
    yield
  finally:
    for n, f in saved.items():
      setattr(_random_module, n, f)
