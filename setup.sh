#!/bin/bash
# Offline setup: nothing to build (pure Python, uses /venv/bin/python with the
# editable install of /repo). Verifies the binding and creates scratch dirs.
set -e
cd "$(dirname "$0")"
mkdir -p evidence replays
/venv/bin/python - <<'PY'
import os, pyglove
p = os.path.realpath(pyglove.__file__)
assert p.startswith('/repo/'), p
print('setup ok: pyglove from', p)
PY
