#!/bin/bash
# usage: ./seedtest.sh <patch.diff> <PID> [PID...]   (applies patch to /repo, runs quick checks, reverts)
patch=$1; shift
if ! git -C /repo diff --quiet; then echo "REPO DIRTY"; exit 3; fi
if ! git -C /repo apply "$patch"; then echo "PATCH DOES NOT APPLY: $patch"; exit 4; fi
for pid in "$@"; do
  out=$(cd /verif && ./check $pid --tier ${TIER:-quick} 2>&1)
  rc=$?
  echo "== $pid rc=$rc $(echo "$out" | grep -c '^VIOLATION') violations"
  echo "$out" | grep "signature=" | head -${NSHOW:-4} | cut -c1-260
  echo "$out" | grep "HARNESS" | head -3
done
git -C /repo checkout -- .
