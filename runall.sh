#!/bin/bash
# usage: ./runall.sh [tier] [seed]   runs every check, prints one line each
tier=${1:-quick}; seed=${2:-0}
for i in 01 02 03 04 05 06 07 08 09 10 11 12 13 14 15 16 17 18 19 20; do
  s=$(date +%s)
  out=$(VERIF_SEED=$seed ./check C$i --tier $tier 2>&1); rc=$?
  e=$(( $(date +%s) - s ))
  echo "C$i rc=$rc ${e}s $(echo "$out" | grep -c '^VIOLATION') viol $(echo "$out" | grep -c '^KNOWN-FINDING') known | $(echo "$out" | tail -1 | cut -c1-160)"
done
